package c15

import (
	"crypto/x509"
	"fmt"
	"net/http"
	"os"
	"path/filepath"
	"sync"
	"sync/atomic"
	"testing"
	"time"

	"verifharness/ev"
	"verifharness/gen"
	"verifharness/world"

	"github.com/gr33nbl00d/caddy-revocation-validator/core/verifhook"
	"github.com/gr33nbl00d/caddy-revocation-validator/crl"
	"pgregory.net/rapid"
)

// Inst is one validator instance.
type Inst struct {
	Source     string `json:"source"` // crl_url | crl_file | cdp
	Disk       bool   `json:"disk"`
	Sig        string `json:"sig"` // verify | verify_log | none
	Bg         bool   `json:"background"`
	PhasePct   int    `json:"phase_pct"`   // start offset in percent of T
	LatencyPct int    `json:"latency_pct"` // origin latency per request in percent of T (refreshes take time)
	FailK      int    `json:"fail_k"`      // the first FailK fetches after publishing the new list fail
	FailKind   string `json:"fail_kind"`   // http500 | garbage | badsig | truncated
	// Decoy: the instance also knows a second CRL (crl_url of another CA) that starts failing for good right after
	// Provision: none | garbage | http500 | badsig
	Decoy string `json:"decoy"`
	// Restart (configured sources on disk): after the run the instance is cleaned up, a newer list is published and the
	// instance is provisioned again on the same work_dir
	Restart bool `json:"restart"`
	// Discover (fetch_background): while the instance is observed, certificates naming distribution points it has
	// not seen before keep arriving, one every 3/8 T
	Discover bool `json:"discover,omitempty"`
	// Form of the instance's lists: "" v2 with cRLNumber | "nonumber" | "v1" (a CA that does not number its lists)
	Form string `json:"form,omitempty"`
}

// Case is 1..4 instances running together.
type Case struct {
	TMillis int    `json:"t_ms"`
	Insts   []Inst `json:"instances"`
}

func genCase(t *rapid.T) Case {
	c := Case{TMillis: rapid.SampledFrom([]int{200, 250, 300, 400}).Draw(t, "T")}
	n := rapid.IntRange(1, 4).Draw(t, "n")
	for i := 0; i < n; i++ {
		l := fmt.Sprintf("i%d", i)
		c.Insts = append(c.Insts, Inst{
			Source:     rapid.SampledFrom([]string{"crl_url", "crl_url", "crl_file", "cdp"}).Draw(t, l+"src"),
			Disk:       rapid.Bool().Draw(t, l+"disk"),
			Sig:        rapid.SampledFrom([]string{"verify", "verify", "verify_log", "none"}).Draw(t, l+"sig"),
			Bg:         rapid.Bool().Draw(t, l+"bg"),
			PhasePct:   rapid.SampledFrom([]int{0, 0, 25, 50, 90}).Draw(t, l+"phase"),
			LatencyPct: rapid.SampledFrom([]int{0, 0, 40, 80}).Draw(t, l+"lat"),
			FailK:      rapid.IntRange(0, 2).Draw(t, l+"k"),
			FailKind:   rapid.SampledFrom([]string{"http500", "garbage", "badsig", "truncated"}).Draw(t, l+"fk"),
			Decoy:      rapid.SampledFrom([]string{"none", "none", "garbage", "http500", "badsig"}).Draw(t, l+"decoy"),
			Restart:    rapid.IntRange(0, 2).Draw(t, l+"restart") == 0,
			Discover:   rapid.IntRange(0, 2).Draw(t, l+"discover") == 0,
			Form:       rapid.SampledFrom([]string{"", "", "nonumber", "v1"}).Draw(t, l+"form"),
		})
	}
	return c
}

var seq atomic.Int64

type running struct {
	inst       Inst
	pki, sib   *world.SimplePKI
	origin     *world.Origin
	checker    *crl.CRLRevocationChecker
	discovered int
	file       string
	mu         sync.Mutex
	published  bool
	served     int // fetches since publishing
	hitTimes   []time.Time
	v1, v2     []byte
	bad        []byte
	probeOld   [][]*x509.Certificate
	probeNew   [][]*x509.Certificate
	rejectedAt time.Time
	breakDecoy func()
	opts       world.CRLOpts
}

var updStart, updDone atomic.Int64

// quiesce waits until no CRL update run of an earlier case is still in progress: refresh runs hold a process-wide
// mutex, so a run left over from the previous case (e.g. one that races that case's Cleanup and retries closing
// an already closed database for seconds) would delay this case's instances and be mistaken for starvation.
func quiesce() {
	deadline := time.Now().Add(60 * time.Second)
	for updStart.Load() != updDone.Load() && time.Now().Before(deadline) {
		time.Sleep(2 * time.Millisecond)
	}
	time.Sleep(20 * time.Millisecond)
	for updStart.Load() != updDone.Load() && time.Now().Before(deadline) {
		time.Sleep(2 * time.Millisecond)
	}
}

func runCase(c Case, x *ev.Ctx) error {
	quiesce()
	id := seq.Add(1)
	T := time.Duration(c.TMillis) * time.Millisecond
	W := 12 * T
	dir := world.NewDir("c15")
	defer os.RemoveAll(dir)
	var rs []*running
	defer func() {
		for _, r := range rs {
			if r.checker != nil {
				r.checker.Cleanup()
			}
			r.origin.Close()
		}
	}()
	// control ticker: proves the process was scheduled during the observation window
	var control atomic.Int64
	stopControl := make(chan struct{})
	go func() {
		tk := time.NewTicker(T)
		defer tk.Stop()
		for {
			select {
			case <-stopControl:
				return
			case <-tk.C:
				control.Add(1)
			}
		}
	}()
	defer close(stopControl)

	for i, in := range c.Insts {
		r := &running{inst: in, origin: world.NewOrigin()}
		name := fmt.Sprintf("c15-%d-%d-%d", os.Getpid(), id, i)
		r.pki = world.NewSimplePKI(name, "p256a", "")
		r.pki.Form = r.inst.Form
		r.sib = world.NewSimplePKI(name, "p256b", "")
		r.v1 = r.pki.CRL(1, "0a")
		r.v2 = r.pki.CRL(2, "0a", "0b")
		switch in.FailKind {
		case "badsig":
			r.bad = r.sib.CRL(2, "0a", "0b")
		case "truncated":
			r.bad = r.v2[:len(r.v2)-7]
		default:
			r.bad = []byte("<html>bad gateway</html>")
		}
		lat := T * time.Duration(in.LatencyPct) / 100
		r.file = filepath.Join(dir, fmt.Sprintf("list%d.crl", i))
		os.WriteFile(r.file, r.v1, 0o600)
		r.origin.Set("/list.crl", func(w http.ResponseWriter, req *http.Request, _ []byte, n int) {
			r.mu.Lock()
			r.hitTimes = append(r.hitTimes, time.Now())
			body := r.v1
			code := 200
			if r.published {
				r.served++
				if r.served <= in.FailK {
					body = r.bad
					if in.FailKind == "http500" {
						code = 500
					}
				} else {
					body = r.v2
				}
			}
			r.mu.Unlock()
			if lat > 0 {
				time.Sleep(lat)
			}
			w.WriteHeader(code)
			w.Write(body)
		})
		rs = append(rs, r)
	}
	// provision with phase offsets
	for i, r := range rs {
		in := r.inst
		time.Sleep(T * time.Duration(in.PhasePct) / 100)
		wd := filepath.Join(dir, fmt.Sprintf("work%d", i))
		os.MkdirAll(wd, 0o755)
		opts := world.CRLOpts{WorkDir: wd, Disk: in.Disk, Sig: in.Sig, Background: in.Bg, Interval: T, NoSettle: true, Trusted: []*x509.Certificate{r.pki.Root.Cert}}
		var cdp []string
		if in.Decoy != "none" {
			dpki := world.NewSimplePKI(fmt.Sprintf("c15-%d-%d-%d decoy", os.Getpid(), id, i), "p256c", "")
			dsib := world.NewSimplePKI(fmt.Sprintf("c15-%d-%d-%d decoy", os.Getpid(), id, i), "p256d", "")
			r.origin.Serve("/decoy.crl", dpki.CRL(1, "0e"))
			opts.URLs = append(opts.URLs, r.origin.URL("/decoy.crl"))
			opts.Trusted = append(opts.Trusted, dpki.Root.Cert)
			r.breakDecoy = func() {
				switch in.Decoy {
				case "garbage":
					r.origin.Serve("/decoy.crl", []byte("gone"))
				case "http500":
					r.origin.Status("/decoy.crl", 500, "down")
				default:
					r.origin.Serve("/decoy.crl", dsib.CRL(2, "0e"))
				}
			}
		}
		switch in.Source {
		case "crl_url":
			opts.URLs = append(opts.URLs, r.origin.URL("/list.crl"))
		case "crl_file":
			opts.Files = []string{r.file}
		default:
			cdp = []string{r.origin.URL("/list.crl")}
		}
		ch, err := world.NewChecker(opts)
		if err != nil {
			return fmt.Errorf("instance %d (%+v): provisioning with an acceptable configured CRL failed: %v", i, in, err)
		}
		r.checker = ch
		r.opts = opts
		if r.breakDecoy != nil {
			r.breakDecoy() // from now on every refresh of the second CRL fails
		}
		r.probeOld = r.pki.ChainFor(r.pki.Leaf("0a", cdp, nil))
		r.probeNew = r.pki.ChainFor(r.pki.Leaf("0b", cdp, nil))
		if in.Source != "cdp" {
			// configured lists are in force by the time provisioning returns
			if v := world.Ask(ch, r.probeOld); v.Kind != "revoked" {
				return fmt.Errorf("instance %d (%s, background=%v, sig=%s): a serial listed in the configured CRL answered %v immediately after Provision returned", i, in.Source, in.Bg, in.Sig, v)
			}
		} else {
			// first use of the CDP; in background mode wait (bounded) until it is in force
			deadline := time.Now().Add(W)
			for {
				if v := world.Ask(ch, r.probeOld); v.Kind == "revoked" {
					break
				}
				if time.Now().After(deadline) {
					r.mu.Lock()
					nh := len(r.hitTimes)
					r.mu.Unlock()
					return fmt.Errorf("instance %d: CDP list not in force %v after the first handshake (background=%v; origin saw %d fetches of it; last verdict %v)", i, W, in.Bg, nh, world.Ask(ch, r.probeOld))
				}
				time.Sleep(T / 10)
			}
		}
	}
	// let every instance tick a little, then publish the new list everywhere
	time.Sleep(2 * T)
	tPub := time.Now()
	controlAtPub := control.Load()
	for _, r := range rs {
		r.mu.Lock()
		r.published = true
		r.mu.Unlock()
		if r.inst.Source == "crl_file" {
			os.WriteFile(r.file, r.v2, 0o600) // files have no failure prefix
		}
	}
	maxK := 0
	for _, r := range rs {
		if r.inst.Source != "crl_file" && r.inst.FailK > maxK {
			maxK = r.inst.FailK
		}
	}
	deadline := tPub.Add(time.Duration(maxK+1) * W)
	pending := len(rs)
	for round := 0; pending > 0 && time.Now().Before(deadline); round++ {
		for i, r := range rs {
			if !r.rejectedAt.IsZero() {
				continue
			}
			if r.inst.Discover && r.inst.Bg && round%3 == 0 {
				// a client of the same CA naming a distribution point this instance has never seen (its list is fine
				// and does not list the client)
				path := fmt.Sprintf("/discover-%d-%d.crl", i, round)
				r.origin.Serve(path, r.pki.CRL(1, "0a"))
				if v := world.Ask(r.checker, r.pki.ChainFor(r.pki.Leaf("0c", []string{r.origin.URL(path)}, nil))); v.Kind != "ok" {
					return fmt.Errorf("handshake naming a new distribution point failed: %v", v)
				}
				r.discovered++
			}
			v := world.Ask(r.checker, r.probeNew)
			switch v.Kind {
			case "revoked":
				r.rejectedAt = time.Now()
				pending--
			case "ok":
			default:
				return fmt.Errorf("handshake during the observation failed: %v", v)
			}
		}
		time.Sleep(T / 8)
	}
	elapsed := time.Since(tPub)
	fired := control.Load() - controlAtPub
	stalled := float64(fired) < 0.7*float64(elapsed)/float64(T)
	for i, r := range rs {
		k := r.inst.FailK
		if r.inst.Source == "crl_file" {
			k = 0
		}
		bound := time.Duration(k+1) * W
		if r.rejectedAt.IsZero() {
			if stalled {
				x.Class("inconclusive-machine-stalled")
				return nil
			}
			r.mu.Lock()
			hits := len(r.hitTimes)
			served := r.served
			r.mu.Unlock()
			return fmt.Errorf("instance %d of %d (%+v, T=%v): certificate revoked by the newly published acceptable CRL is still accepted %v after publishing (bound %v = (k+1) x 12 T); the location was fetched %d times in total, %d times since publishing (control ticker fired %d times)",
				i, len(rs), r.inst, T, elapsed.Round(time.Millisecond), bound, hits, served, fired)
		}
		if d := r.rejectedAt.Sub(tPub); d > bound && !stalled {
			return fmt.Errorf("instance %d (%+v): rejection came %v after publishing, bound %v", i, r.inst, d, bound)
		}
		if r.discovered > 0 {
			x.Class("new-distribution-points-discovered-during-observation")
		}
		x.Classf("source=%s", r.inst.Source)
		x.Classf("delay-in-T=%d", int(r.rejectedAt.Sub(tPub)/T))
	}
	// restart: configured lists are in force by the time provisioning returns, also when an older list is on disk
	for i, r := range rs {
		if !r.inst.Restart || !r.inst.Disk || r.inst.Source == "cdp" {
			continue
		}
		r.checker.Cleanup()
		r.checker = nil
		quiesce()
		v3 := r.pki.CRL(3, "0a", "0b", "0c")
		os.WriteFile(r.file, v3, 0o600)
		r.mu.Lock()
		r.v2 = v3
		r.served = r.inst.FailK + 1 // the failure prefix is over (under verify_log / none a wrongly signed list counts as acceptable and may have ended the observation early)
		r.mu.Unlock()
		if r.breakDecoy != nil {
			r.origin.Serve("/decoy.crl", world.NewSimplePKI(fmt.Sprintf("c15-%d-%d-%d decoy", os.Getpid(), id, i), "p256c", "").CRL(3, "0e"))
		}
		ch, err := world.NewChecker(r.opts)
		if err != nil {
			return fmt.Errorf("instance %d: re-provisioning on the same work_dir with acceptable configured CRLs failed: %v", i, err)
		}
		r.checker = ch
		if v := world.Ask(ch, r.pki.ChainFor(r.pki.Leaf("0c", nil, nil))); v.Kind != "revoked" {
			return fmt.Errorf("instance %d (%s on disk): after a restart the serial listed only in the NEWEST configured list answered %v immediately after Provision returned (an older list was on disk)", i, r.inst.Source, v)
		}
		x.Class("restart-with-newer-configured-list")
	}
	x.Classf("instances=%d", len(rs))
	x.NonTrivial(fmt.Sprintf("%+v", c))
	return nil
}

var spec = ev.Spec[Case]{
	ID:          "C15",
	Gen:         genCase,
	Run:         runCase,
	Rule:        "rapid draws 1..4 checker instances running together in one process (distinct work_dirs), update_interval T in 200..400 ms, per instance: source in {crl_urls, crl_files, CDP}, storage, signature mode, fetch mode, start phase (0..90 % of T), optionally (fetch_background) a stream of certificates naming never-seen distribution points every 3/8 T during the observation, origin latency (0..80 % of T, so refreshes of different instances overlap) and a failure prefix: after the new list is published the first k in 0..2 fetches fail (HTTP 500, garbage, truncated, wrong signature) before the acceptable list is served; optionally a second configured CRL of another CA that fails for good right after Provision (garbage / HTTP 500 / wrong signature), and for configured sources on disk a final restart on the same work_dir after a still newer list was published. Oracles: after that restart the newest list is in force when Provision returns; a serial listed in a configured CRL is rejected immediately after Provision returns; after publishing, every instance rejects the newly revoked certificate within (k+1) x 12 T (each successive fetch within 12 T), polled with handshakes every T/8; the assertion is only evaluated if a control ticker of the harness with period T kept firing during the window (a stalled machine yields 'inconclusive', never a violation). Every case is non-trivial; distinct by the full configuration.",
	Assumptions: []string{"bounded liveness for intervals of a few hundred milliseconds, not the 30-minute production interval", "12 T per fetch is a generous bound: a refresh that becomes several times slower but stays bounded is not detected"},
}

func TestMain(m *testing.M) {
	verifhook.Set(func(site string) {
		switch site {
		case "checker.update.start":
			updStart.Add(1)
		case "checker.update.done":
			updDone.Add(1)
		}
	})
	code := m.Run()
	world.Cleanup()
	os.Exit(code)
}

func TestProp(t *testing.T)   { ev.Check(t, spec) }
func TestReplay(t *testing.T) { ev.Replay(t, spec) }

var _ = gen.CN
