package sim

import (
	"fmt"

	"pgregory.net/rapid"
)

// DrawSet draws a subset of EntryU.
func DrawSet(t *rapid.T, label string) []int {
	var s []int
	for i := range EntryU {
		if rapid.IntRange(0, 2).Draw(t, fmt.Sprintf("%s_%d", label, i)) == 0 {
			s = append(s, i)
		}
	}
	return s
}

// DrawContent draws an origin content; goodBias in 0..10 is the weight of acceptable content.
func DrawContent(t *rapid.T, label string, goodBias int) Content {
	kinds := []string{"badsig", "unknown-signer", "garbage", "truncated", "critical", "httperr", "empty"}
	c := Content{K: rapid.IntRange(0, 1<<16).Draw(t, label+"_k")}
	if rapid.IntRange(0, 9).Draw(t, label+"_g") < goodBias {
		c.Kind = "good"
	} else {
		c.Kind = rapid.SampledFrom(kinds).Draw(t, label+"_kind")
	}
	switch c.Kind {
	case "good", "badsig", "unknown-signer", "truncated", "critical":
		c.Form = rapid.SampledFrom([]string{"", "", "", "number", "nonumber", "v1"}).Draw(t, label+"_form")
		c.SameThis = rapid.IntRange(0, 3).Draw(t, label+"_samethis") == 0
		c.Set = DrawSet(t, label+"_set")
		if c.Kind == "truncated" && len(c.Set) == 0 {
			c.Set = []int{0, 1}
		}
	}
	return c
}

// DrawCDPs draws 1..n distribution point sets.
func DrawCDPs(t *rapid.T, issuers, maxN int, kinds []string) []CDPSpec {
	n := rapid.IntRange(1, maxN).Draw(t, "ncdp")
	var out []CDPSpec
	for i := 0; i < n; i++ {
		twin := -1
		if i > 0 && out[i-1].Kind == "http" && rapid.IntRange(0, 2).Draw(t, fmt.Sprintf("cdp%d_twin", i)) == 0 {
			twin = i - 1
		}
		kind := rapid.SampledFrom(kinds).Draw(t, fmt.Sprintf("cdp%d_kind", i))
		if twin >= 0 {
			kind = "http"
		}
		upperOf := 0
		if twin < 0 && i > 0 && out[i-1].Kind == "http" && out[i-1].Twin < 0 && out[i-1].UpperOf == 0 && rapid.IntRange(0, 3).Draw(t, fmt.Sprintf("cdp%d_upper", i)) == 0 {
			upperOf, kind = i, "http"
		}
		out = append(out, CDPSpec{
			UpperOf: upperOf,
			Issuer: rapid.IntRange(0, issuers-1).Draw(t, fmt.Sprintf("cdp%d_iss", i)),
			Kind:   kind,
			Twin:   twin,
			NoAKI:  rapid.IntRange(0, 3).Draw(t, fmt.Sprintf("cdp%d_noaki", i)) == 0,
			PEM:    rapid.IntRange(0, 3).Draw(t, fmt.Sprintf("cdp%d_pem", i)) == 0,
			Form:   rapid.SampledFrom([]string{"", "", "", "nonumber", "v1"}).Draw(t, fmt.Sprintf("cdp%d_form", i)),
		})
	}
	return out
}

// AllKinds are all CDP set kinds.
var AllKinds = []string{"http", "http", "http", "http2", "ldap+http", "ldap-only", "unparsable", "ldap+unparsable"}

// DrawEvents draws a history.
func DrawEvents(t *rapid.T, s *Spec, n int, goodBias int, allowRestart bool) []Event {
	var ev []Event
	for i := 0; i < n; i++ {
		l := fmt.Sprintf("e%d", i)
		k := rapid.IntRange(0, 11).Draw(t, l+"_k")
		switch {
		case k <= 5:
			e := Event{Kind: "handshake", Probe: rapid.IntRange(0, len(ProbeU)-1).Draw(t, l+"_p")}
			if rapid.IntRange(0, 4).Draw(t, l+"_nocdp") == 0 {
				e.CDP = -1
				e.Issuer = rapid.IntRange(0, s.Issuers-1).Draw(t, l+"_iss")
			} else {
				e.CDP = rapid.IntRange(0, len(s.CDPs)-1).Draw(t, l+"_c")
			}
			ev = append(ev, e)
		case k <= 8:
			c := rapid.IntRange(0, len(s.CDPs)-1).Draw(t, l+"_oc")
			ev = append(ev, Event{Kind: "origin", CDP: c, Content: DrawContent(t, l+"_ct", goodBias)})
		case k <= 10 || !allowRestart:
			ev = append(ev, Event{Kind: "tick"})
		default:
			ev = append(ev, Event{Kind: "restart"})
		}
	}
	return ev
}
