// Package sim runs generated histories of a CRL checker against a reference
// model of "which list is in force where". It is shared by the properties that
// quantify over histories of handshakes, origin states, refresh ticks and
// restarts (C10, C11, C16, and parts of C01/C15/C20).
package sim

import (
	"crypto/x509"
	"fmt"
	"os"
	"path/filepath"
	"sort"
	"strings"
	"sync/atomic"
	"time"

	"verifharness/ev"
	"verifharness/gen"
	"verifharness/world"

	"github.com/gr33nbl00d/caddy-revocation-validator/core/verifhook"
	"github.com/gr33nbl00d/caddy-revocation-validator/crl"
)

// EntryU is the universe of CRL entries a list can contain. Probes are the
// positive serials of ProbeU. Neighbour relations are deliberate: +-1, x256,
// sign variants, 2^63 / 2^64 edges, a 20-byte serial.
var EntryU = []gen.Entry{
	{SerialHex: "05", Date: 1690000001},
	{SerialHex: "06", Date: 1690000002, Exts: []gen.Ext{gen.ReasonExt(1)}},
	{SerialHex: "0500", Date: 1690000003},
	{SerialHex: "80", Date: 1690000004, Neg: true}, // -128: must never hit the certificate with serial +128
	{SerialHex: "7fffffffffffffff", Date: 1690000005},
	{SerialHex: "8000000000000000", Date: 1690000006, GenTime: true},
	{SerialHex: "ff00ff00ff00ff00ff00ff00ff00ff00ff00ff00", Date: 1690000007},
	{SerialHex: "0a", Date: 1690000008},
}

// ProbeU are the serials of probe certificates.
var ProbeU = []string{"05", "06", "0500", "80", "7fffffffffffffff", "8000000000000000", "ff00ff00ff00ff00ff00ff00ff00ff00ff00ff00", "0a", "04", "07", "ff80", "50",
	// decimal 15, 110, 105: "<name>1"+"5", "<name>1"+"10", "<name>10"+"5" read as "<name>"+serial (DigitNames)
	"0f", "6e", "69"}

// listedBy reports whether entry index e lists probe index p.
func listedBy(e, p int) bool {
	en := EntryU[e]
	return !en.Neg && gen.NormSerialHex(en.SerialHex) == gen.NormSerialHex(ProbeU[p])
}

// Config is the checker configuration of a history.
type Config struct {
	Disk       bool   `json:"disk"`
	Strict     bool   `json:"strict"`
	Background bool   `json:"background"`
	Sig        string `json:"sig"` // verify | verify_log | none | "" (unset = verify)
	// Configured CRLs: indices of CDPs whose list is ALSO configured as crl_file / crl_url.
	ConfFiles []int `json:"conf_files,omitempty"`
	ConfURLs  []int `json:"conf_urls,omitempty"`
	// WorkDirSpelling: "" canonical, "slash" trailing slash, "dot" a "/./" component
	WorkDirSpelling string `json:"work_dir_spelling,omitempty"`
	// TrustSigners: the issuing CAs are configured as trusted signature certs
	// (needed for configured CRLs in mode verify: there is no handshake chain at provisioning).
	TrustSigners bool `json:"trust_signers,omitempty"`
	// TrustSiblings: for every issuing CA a certificate with the SAME name and another key (the CA after a re-key)
	// is configured as trusted signature cert: lists of kind "badsig" (signed with that key) are then authentic
	TrustSiblings bool `json:"trust_siblings,omitempty"`
	// ExpiredSigners: the certificates of the issuing CAs (as handed over in chains and as configured trusted signers) are
	// past their notAfter: certificate validity is the TLS stack's business, the signature policy does not depend on it
	ExpiredSigners bool `json:"expired_signers,omitempty"`
	// T61Names: the issuing CAs' names are TeletexStrings that differ in one Latin-1 character only
	T61Names bool `json:"t61_names,omitempty"`
	// DigitNames: the issuing CAs' names differ only in digits appended to the attribute that ENDS the name's string
	// form ("...O=verif", "...O=verif1", "...O=verif10"): name + serial concatenations of different issuers coincide
	// ("verif1"+"5" = "verif"+"15") unless the two are kept apart
	DigitNames bool `json:"digit_names,omitempty"`
}

// CDPSpec is one distribution-point set.
type CDPSpec struct {
	Issuer int `json:"issuer"`
	// Kind: http | http2 (two http URLs, same content) | ldap+http | ldap-only | unparsable | ldap+unparsable
	Kind string `json:"kind"`
	// Twin >= 0 (only with Kind http): this set is served at the same host name and path as CDP Twin but on
	// another port (a second origin), i.e. two distinct locations that differ in nothing but the port.
	Twin int `json:"twin"`
	// Query (only with Kind http / http2 / ldap+http): appended to the URL as "?<query>"; locations that differ
	// only in the query string are distinct locations. May contain traversal sequences, encoded separators,
	// unicode, and be very long.
	Query string `json:"query,omitempty"`
	// SamePath k > 0: use the path of CDP k-1 (same origin): with different Query strings the two locations
	// differ in nothing but the query.
	SamePath int  `json:"same_path,omitempty"`
	// UpperOf k > 0 (only with Kind http): the path is the path of CDP k-1 in upper case, on the same origin and without a
	// query: two locations that differ in nothing but letter case (distinct resources: paths are case sensitive)
	UpperOf int `json:"upper_of,omitempty"`
	NoAKI    bool `json:"no_aki,omitempty"` // CRLs of this CDP carry no authorityKeyIdentifier
	PEM      bool `json:"pem,omitempty"`    // served PEM encoded
	// Form: "" v2 with cRLNumber | "nonumber" v2 without cRLNumber | "v1" version 1 list (no extensions at all)
	Form string `json:"form,omitempty"`
}

// Usable reports whether the set contains a location the loader supports.
func (c CDPSpec) Usable() bool { return c.Kind == "http" || c.Kind == "http2" || c.Kind == "ldap+http" }

// Content is what the origin serves for a CDP.
type Content struct {
	// Kind: good | badsig | unknown-signer | garbage | truncated | critical | httperr | empty | abort (connection reset mid-body)
	Kind string `json:"kind"`
	Set  []int  `json:"set,omitempty"` // indices into EntryU
	K    int    `json:"k,omitempty"`
	// Form overrides the location's list form for this one list: "" (the location's form) | number | nonumber | v1
	// (a location may publish a numbered list now and an unnumbered one next time)
	Form string `json:"form,omitempty"`
	// SameThis: the list carries a fixed thisUpdate (the same as every other such list) although its number and
	// content are new (a re-issue within the same second, or a CA that stamps the scheduled time)
	SameThis bool `json:"same_this,omitempty"`
}

// Event is one step of a history.
type Event struct {
	// Kind: origin | handshake | tick | restart
	Kind    string  `json:"kind"`
	CDP     int     `json:"cdp"`               // origin: which CDP; handshake: CDP named by the certificate (-1: none)
	Issuer  int     `json:"issuer,omitempty"`  // handshake without CDP: issuer of the certificate
	Probe   int     `json:"probe,omitempty"`   // handshake: index into ProbeU
	Content Content `json:"content,omitempty"` // origin
	// restart only: SetSig switches the configured signature_validation_mode to Sig for the new process (a
	// configuration change across a restart; only used with configured lists)
	SetSig bool `json:"set_sig,omitempty"`
	// restart only: SetTrust switches trusted_signature_certs to "the issuing CAs" (Trust) or to nothing for the new process
	SetTrust bool   `json:"set_trust,omitempty"`
	Trust    bool   `json:"trust,omitempty"`
	Sig      string `json:"sig,omitempty"`
}

// Spec is a whole history.
type Spec struct {
	Config  Config    `json:"config"`
	Issuers int       `json:"issuers"` // 1..3 issuing CAs with minimally different names
	CDPs    []CDPSpec `json:"cdps"`
	Initial []Content `json:"initial"` // initial origin content per CDP
	Events  []Event   `json:"events"`
}

// issuer names: minimally different (extra char, trailing underscore+digit like the store key separator, extra RDN)
func issuerName(base string, i int) gen.NameSpec {
	if strings.HasPrefix(base, "t61:") {
		// names written as TeletexString whose only difference is one Latin-1 character (a byte that is not valid UTF-8)
		base = base[4:]
		switch i {
		case 0:
			return gen.NameSpec{{{T: "O", V: "verif"}}, {{T: "CN", V: base + " Z\u00fcrich ca", Kind: "t61"}}}
		case 1:
			return gen.NameSpec{{{T: "O", V: "verif"}}, {{T: "CN", V: base + " Z\u00f6rich ca", Kind: "t61"}}}
		default:
			return gen.NameSpec{{{T: "O", V: "verif"}}, {{T: "CN", V: base + " Z\u00e4rich ca", Kind: "t61"}}}
		}
	}
	if strings.HasPrefix(base, "digit:") {
		base = base[6:]
		return gen.NameSpec{{{T: "O", V: "verif" + []string{"", "1", "10"}[i%3]}}, {{T: "CN", V: base + " ca"}}}
	}
	switch i {
	case 0:
		return gen.NameSpec{{{T: "O", V: "verif"}}, {{T: "CN", V: base + " ca"}}}
	case 1:
		return gen.NameSpec{{{T: "O", V: "verif"}}, {{T: "CN", V: base + " ca_5"}}}
	default:
		return gen.NameSpec{{{T: "O", V: "verif"}}, {{T: "CN", V: base + " ca"}}, {{T: "OU", V: "x"}}}
	}
}

type cdpState struct {
	known  bool  // an entry exists in the running process
	loaded bool  // a list is in force in the running process
	set    []int // the list in force
	alien  bool  // the list in force was issued under an unrelated issuer name (accepted unverified)
}

// Model is the reference model.
type Model struct {
	spec      *Spec
	origin    []Content
	proc      []cdpState
	persisted []*[]int // disk: accepted list on disk per CDP (nil: none)
	// uncertain[c]: after a restart on disk, a persisted list that no handshake has named yet may or may not be consulted
}

func (m *Model) sigMode() string {
	if m.spec.Config.Sig == "" {
		return "verify"
	}
	return m.spec.Config.Sig
}

// acceptable: would this content be taken into force under the configured signature policy?
func (m *Model) acceptable(c Content) bool {
	switch c.Kind {
	case "good":
		return true
	case "badsig":
		// signed by the same-name sibling: authentic iff that certificate is a configured trusted signer
		return m.sigMode() != "verify" || m.spec.Config.TrustSiblings
	case "unknown-signer":
		return m.sigMode() != "verify"
	}
	return false // garbage, truncated, critical, httperr, empty: never parseable/acceptable
}

// confAcceptable: configured lists are taken in without a handshake chain, so in mode verify the signer
// must be a configured trusted signer.
func (m *Model) confAcceptable(c Content) bool {
	if !m.acceptable(c) {
		return false
	}
	if m.sigMode() == "verify" && c.Kind == "good" && !m.spec.Config.TrustSigners {
		return false
	}
	return true
}

func (m *Model) tryLoad(c int) {
	st := &m.proc[c]
	if m.acceptable(m.origin[c]) {
		st.loaded = true
		st.set = append([]int(nil), m.origin[c].Set...)
		st.alien = m.origin[c].Kind == "unknown-signer"
		if m.spec.Config.Disk {
			cp := append([]int(nil), st.set...)
			if st.alien {
				cp = nil // filed under another issuer: irrelevant for every probe
			}
			m.persisted[c] = &cp
		}
	}
}

func (m *Model) tick() {
	for c := range m.proc {
		if m.proc[c].known {
			m.tryLoad(c) // refresh of a loaded entry and load of a not yet loaded one have the same outcome
		}
	}
}

// name creates the entry for CDP c if needed (what a handshake naming it does).
func (m *Model) name(c int) (created bool) {
	st := &m.proc[c]
	if st.known {
		return false
	}
	st.known = true
	if m.spec.Config.Disk && m.persisted[c] != nil {
		st.loaded = true
		st.alien = false
		st.set = append([]int(nil), *m.persisted[c]...)
	}
	return true
}

func (m *Model) restart() {
	for c := range m.proc {
		m.proc[c] = cdpState{}
	}
}

// listed: is probe p of issuer i listed in a list in force (in the running process)?
func (m *Model) listed(issuer, p int) bool {
	for c, st := range m.proc {
		if !st.loaded || st.alien || m.listIssuer(c) != issuer {
			continue
		}
		for _, e := range st.set {
			if listedBy(e, p) {
				return true
			}
		}
	}
	return false
}

// listIssuer: under which issuer NAME are the entries of the list in force at CDP c filed?
// good and badsig lists carry the CDP issuer's name; unknown-signer lists carry another name (-1).
func (m *Model) listIssuer(c int) int {
	return m.spec.CDPs[c].Issuer
}

// maybeListed: after a restart on disk, lists persisted for CDPs nobody named yet may or may not be consulted.
func (m *Model) maybeListed(issuer, p int) bool {
	if !m.spec.Config.Disk {
		return false
	}
	for c := range m.proc {
		if m.proc[c].known || m.persisted[c] == nil || m.spec.CDPs[c].Issuer != issuer {
			continue
		}
		for _, e := range *m.persisted[c] {
			if listedBy(e, p) {
				return true
			}
		}
	}
	return false
}

// World is the running system under test.
type World struct {
	spec    *Spec
	origin  *world.Origin
	origin2 *world.Origin
	base    string
	workDir string
	fileDir string
	cas     []*world.SimplePKI
	sibling []*world.SimplePKI
	other   *world.SimplePKI
	number  int
	checker *crl.CRLRevocationChecker
	leaves  map[string][][]*x509.Certificate
	// Hooks for property packages
	OnProvision func(c *crl.CRLRevocationChecker)
}

var worldSeq atomic.Int64

// updatesDone counts finished CRL update runs (hook "checker.update.done").
var updatesDone atomic.Int64

var extraHook atomic.Pointer[func(name string)]

// SetExtraHook installs (nil: removes) a callback that sees every verif hook site besides the engine's own use.
func SetExtraHook(f func(name string)) {
	if f == nil {
		extraHook.Store(nil)
		return
	}
	extraHook.Store(&f)
}

func init() {
	verifhook.Set(func(name string) {
		if name == "checker.update.done" {
			updatesDone.Add(1)
		}
		if f := extraHook.Load(); f != nil {
			(*f)(name)
		}
	})
}

func (w *World) pathOf(c int) string {
	cd := w.spec.CDPs[c]
	p := fmt.Sprintf("/cdp%d.crl", c)
	if cd.Kind == "http" && cd.UpperOf > 0 && cd.UpperOf-1 < c {
		return fmt.Sprintf("/CDP%d.CRL", cd.UpperOf-1)
	}
	if cd.Kind == "http" && cd.Twin >= 0 && cd.Twin < c {
		p = fmt.Sprintf("/cdp%d.crl", cd.Twin)
	} else if cd.SamePath > 0 && cd.SamePath-1 < c {
		p = fmt.Sprintf("/cdp%d.crl", cd.SamePath-1)
	}
	if cd.Query != "" {
		p += "?" + cd.Query
	}
	return p
}

func (w *World) originOf(c int) *world.Origin {
	if cd := w.spec.CDPs[c]; cd.Kind == "http" && cd.Twin >= 0 && cd.Twin < c {
		return w.origin2
	}
	return w.origin
}

func (w *World) urls(c int) []string {
	p := w.pathOf(c)
	switch w.spec.CDPs[c].Kind {
	case "http":
		return []string{w.originOf(c).URL(p)}
	case "http2":
		mirror := p + ".mirror"
		if i := strings.Index(p, "?"); i >= 0 {
			mirror = p[:i] + ".mirror" + p[i:]
		}
		return []string{w.origin.URL(p), w.origin.URL(mirror)}
	case "ldap+http":
		return []string{"ldap://directory.invalid/cn=ca?certificateRevocationList", w.origin.URL(p)}
	case "ldap-only":
		return []string{"ldap://directory.invalid/cn=ca?certificateRevocationList"}
	case "unparsable":
		return []string{"http://[::1"}
	default: // ldap+unparsable
		return []string{"ldap://directory.invalid/cn=x", "http://%zz"}
	}
}

func (w *World) build(c int, ct Content) []byte {
	cd := w.spec.CDPs[c]
	signer := w.cas[cd.Issuer].Issuer()
	switch ct.Kind {
	case "badsig":
		signer = w.sibling[cd.Issuer].Issuer()
	case "unknown-signer":
		signer = w.other.Issuer()
	case "garbage":
		return []byte(fmt.Sprintf("\x30\x82\x01\x00 this is not a CRL %d", ct.K))
	case "httperr", "abort":
		return nil
	case "empty":
		return []byte{}
	}
	w.number++
	spec := gen.CRLSpec{Version: 1, IssuerDER: signer.Cert.RawSubject, ThisUpdate: 1700000000 + int64(w.number), NextUpdate: 1900000000,
		HasExts: true, Exts: []gen.Ext{gen.CRLNumberExt([]byte{byte(w.number >> 8), byte(w.number)})}}
	if ct.Kind == "badsig" {
		// same issuer NAME as the real CA, other key
		spec.IssuerDER = w.cas[cd.Issuer].Issuer().Cert.RawSubject
	}
	spec.SigAlg = gen.CompatibleAlgs(signer.Key)[1+w.number%4]
	form := cd.Form
	switch ct.Form {
	case "number":
		form = ""
	case "nonumber", "v1":
		form = ct.Form
	}
	if ct.SameThis {
		spec.ThisUpdate = 1700000000
	}
	if form == "nonumber" || form == "v1" {
		spec.Exts = nil
	}
	if !cd.NoAKI {
		if ext, ok := gen.AKIExtension("keyid", signer.Cert); ok {
			spec.Exts = append(spec.Exts, gen.Ext{OID: gen.OIDAKI, Value: ext.Value})
		}
	}
	if ct.Kind == "critical" {
		spec.Exts = append(spec.Exts, gen.UnknownExt(2, true))
	}
	for _, e := range ct.Set {
		spec.Entries = append(spec.Entries, EntryU[e])
	}
	if form == "v1" && ct.Kind != "critical" {
		// a version 1 list: no crlExtensions, no entry extensions
		spec.Version, spec.HasExts, spec.Exts = -1, false, nil
		for i := range spec.Entries {
			spec.Entries[i].Exts = nil
		}
	} else if len(spec.Exts) == 0 {
		spec.HasExts = false
	}
	der := spec.MustBuild(signer.Key)
	if ct.Kind == "truncated" {
		// cut inside or right after the entry list so that entries have already been streamed
		cut := len(der) - 1 - ct.K%(len(der)/2)
		der = der[:cut]
	}
	if cd.PEM {
		return gen.PEMEncode(der, false)
	}
	return der
}

func (w *World) serve(c int, ct Content) {
	p := w.pathOf(c)
	o := w.originOf(c)
	body := w.build(c, ct)
	mirror := p + ".mirror"
	if i := strings.Index(p, "?"); i >= 0 {
		mirror = p[:i] + ".mirror" + p[i:]
	}
	for _, path := range []string{p, mirror} {
		if ct.Kind == "abort" {
			good := ct
			good.Kind = "good"
			o.AbortMidBody(path, w.build(c, good))
			continue
		}
		if ct.Kind == "httperr" {
			o.Status(path, []int{500, 503, 404}[ct.K%3], "<html>error</html>")
		} else {
			o.Serve(path, body)
		}
	}
	// configured file copy of this list
	os.WriteFile(w.filePath(c), body, 0o600)
}

func (w *World) filePath(c int) string { return filepath.Join(w.fileDir, fmt.Sprintf("cdp%d.crl", c)) }

func (w *World) opts() world.CRLOpts {
	cfg := w.spec.Config
	wd := w.workDir
	switch cfg.WorkDirSpelling {
	case "slash":
		wd += "/"
	case "dot":
		wd = filepath.Dir(wd) + "/./" + filepath.Base(wd)
	}
	o := world.CRLOpts{WorkDir: wd, Disk: cfg.Disk, Strict: cfg.Strict, Background: cfg.Background, Sig: cfg.Sig}
	for _, c := range cfg.ConfFiles {
		o.Files = append(o.Files, w.filePath(c))
	}
	for _, c := range cfg.ConfURLs {
		o.URLs = append(o.URLs, w.originOf(c).URL(w.pathOf(c)))
	}
	if cfg.TrustSigners {
		for _, ca := range w.cas {
			o.Trusted = append(o.Trusted, ca.Issuer().Cert)
		}
	}
	if cfg.TrustSiblings {
		for _, ca := range w.sibling {
			o.Trusted = append(o.Trusted, ca.Issuer().Cert)
		}
	}
	return o
}

func (w *World) leaf(issuer, probe, cdp int) [][]*x509.Certificate {
	k := fmt.Sprintf("%d/%d/%d", issuer, probe, cdp)
	if ch, ok := w.leaves[k]; ok {
		return ch
	}
	var urls []string
	if cdp >= 0 {
		urls = w.urls(cdp)
	}
	l := w.cas[issuer].Leaf(ProbeU[probe], urls, nil)
	ch := w.cas[issuer].ChainFor(l)
	w.leaves[k] = ch
	return ch
}

// Checker returns the running checker.
func (w *World) Checker() *crl.CRLRevocationChecker { return w.checker }

// Opts returns the options the running instance was provisioned with.
func (w *World) Opts() world.CRLOpts { return w.opts() }

// WorkDir returns the work_dir.
func (w *World) WorkDir() string { return w.workDir }

// SandboxDir returns the parent directory that holds work_dir (and the harness's own "files" directory).
func (w *World) SandboxDir() string { return filepath.Dir(w.workDir) }

// Spec returns the history being run.
func (w *World) Spec() *Spec { return w.spec }

// Known reports whether the model says an entry for CDP c exists in the running process.
func (m *Model) Known(c int) bool { return m.proc[c].known }

// Persisted reports whether the model says a list for CDP c is on disk.
func (m *Model) Persisted(c int) bool { return m.persisted[c] != nil }

// Observer lets a property package look at each step.
type Observer interface {
	// AfterEvent is called after every event with the world and the model.
	AfterEvent(i int, e Event, w *World, m *Model) error
}

// Result summarises a run for classification.
type Result struct {
	Handshakes, StrictDenials, Revoked, Restarts, Ticks, RejectedLoads, AcceptedLoads, Races int
	ProvisionFailed                                                                          bool
	Trace                                                                                    []string
}

func setStr(s []int) string {
	var p []string
	for _, e := range s {
		x := EntryU[e].SerialHex
		if EntryU[e].Neg {
			x = "-" + x
		}
		p = append(p, x)
	}
	sort.Strings(p)
	return "{" + strings.Join(p, ",") + "}"
}

// Run executes the history and compares every verdict with the model.
func Run(spec Spec, x *ev.Ctx, obs Observer) (*Result, error) {
	id := worldSeq.Add(1)
	o1 := world.NewOrigin()
	w := &World{spec: &spec, origin: o1, origin2: o1.SamePrefixOn(), leaves: map[string][][]*x509.Certificate{}}
	defer w.origin.Close()
	defer w.origin2.Close()
	w.base = fmt.Sprintf("sim-%d-%d", os.Getpid(), id)
	dir := world.NewDir("sim")
	defer os.RemoveAll(dir)
	w.workDir = filepath.Join(dir, "work")
	w.fileDir = filepath.Join(dir, "files")
	os.MkdirAll(w.workDir, 0o755)
	os.MkdirAll(w.fileDir, 0o755)
	keys := [][2]string{{"p256a", "p256b"}, {"rsa2048a", ""}, {"p384", "p256c"}}
	sib := [][2]string{{"p256d", "p256e"}, {"rsa2048b", ""}, {"p521", "p256f"}}
	for i := 0; i < spec.Issuers; i++ {
		nameBase := w.base
		if spec.Config.T61Names {
			nameBase = "t61:" + w.base
		} else if spec.Config.DigitNames {
			nameBase = "digit:" + w.base
		}
		if spec.Config.ExpiredSigners {
			nameBase = "expired:" + nameBase
		}
		w.cas = append(w.cas, pkiWithName(nameBase, i, keys[i]))
		nameBase = strings.TrimPrefix(nameBase, "expired:")
		w.sibling = append(w.sibling, pkiWithName(nameBase, i, sib[i]))
	}
	w.other = world.NewSimplePKI(w.base+" unrelated", "rsa2048c", "")
	m := &Model{spec: &spec, origin: make([]Content, len(spec.CDPs)), proc: make([]cdpState, len(spec.CDPs)), persisted: make([]*[]int, len(spec.CDPs))}
	for c := range spec.CDPs {
		m.origin[c] = spec.Initial[c]
		w.serve(c, spec.Initial[c])
	}
	res := &Result{}
	if p, ok := obs.(interface{ BeforeStart(w *World) }); ok && obs != nil {
		p.BeforeStart(w)
	}

	provision := func() error {
		ch, err := world.NewChecker(w.opts())
		// model: configured CRLs are in force when provisioning returns; an unacceptable configured CRL fails provisioning
		wantFail := false
		for _, c := range append(append([]int{}, spec.Config.ConfURLs...), spec.Config.ConfFiles...) {
			if !m.confAcceptable(m.origin[c]) {
				wantFail = true
			}
		}
		if wantFail && err != nil {
			// an unacceptable configured CRL may fail provisioning (or provision without it, checked by the verdicts)
			res.ProvisionFailed = true
			return nil
		}
		if err != nil {
			return fmt.Errorf("provisioning failed although every configured CRL is acceptable under signature mode %q: %v", m.sigMode(), err)
		}
		w.checker = ch
		if w.OnProvision != nil {
			w.OnProvision(ch)
		}
		return nil
	}
	if err := provision(); err != nil {
		return res, err
	}
	if res.ProvisionFailed {
		return res, nil
	}
	defer func() {
		if w.checker != nil {
			w.checker.Cleanup()
		}
	}()
	// configured lists: separate entries keyed by file/url; tracked in confLoaded (always known, loaded at provisioning)
	conf := newConfModel(m)
	conf.reload()

	listed := func(issuer, p int) bool { return m.listed(issuer, p) || conf.listed(issuer, p) }

	for i, e := range spec.Events {
		switch e.Kind {
		case "origin":
			m.origin[e.CDP] = e.Content
			w.serve(e.CDP, e.Content)
			res.Trace = append(res.Trace, "origin:"+e.Content.Kind)
		case "tick":
			w.checker.VerifForceUpdate()
			m.tick()
			conf.tick()
			res.Ticks++
			res.Trace = append(res.Trace, "tick")
		case "restart":
			w.checker.Cleanup()
			w.checker = nil
			m.restart()
			if e.SetSig {
				spec.Config.Sig = e.Sig
			}
			if e.SetTrust {
				spec.Config.TrustSigners = e.Trust
			}
			if err := provision(); err != nil {
				return res, fmt.Errorf("event %d (restart): %v", i, err)
			}
			if res.ProvisionFailed {
				return res, nil
			}
			conf.reload()
			res.Restarts++
			res.Trace = append(res.Trace, "restart")
		case "handshake":
			issuer := e.Issuer
			if e.CDP >= 0 {
				issuer = spec.CDPs[e.CDP].Issuer
			}
			usable := e.CDP >= 0 && spec.CDPs[e.CDP].Usable()
			var allowed []string
			race := false
			if e.CDP >= 0 && usable {
				willCreate := !m.proc[e.CDP].known
				if spec.Config.Background && willCreate {
					// a new entry in background mode triggers an asynchronous global refresh; make that
					// refresh a no-op for everything already known by running a tick first
					w.checker.VerifForceUpdate()
					m.tick()
					conf.tick()
				}
				created := m.name(e.CDP)
				before := verdictOf(spec.Config.Strict, true, true, m.proc[e.CDP].loaded, listed(issuer, e.Probe))
				if !m.proc[e.CDP].loaded {
					wasLoaded := m.proc[e.CDP].loaded
					if spec.Config.Background {
						if created {
							m.tryLoad(e.CDP)
							race = true
						}
					} else {
						m.tryLoad(e.CDP)
					}
					if m.proc[e.CDP].loaded && !wasLoaded {
						res.AcceptedLoads++
					} else if !m.proc[e.CDP].loaded {
						res.RejectedLoads++
					}
				}
				if spec.Config.Background && created {
					// a new entry (even one that came back loaded from disk) starts the asynchronous refresh
					race = true
				}
				after := verdictOf(spec.Config.Strict, true, true, m.proc[e.CDP].loaded, listed(issuer, e.Probe))
				allowed = []string{after}
				if race && before != after {
					allowed = append(allowed, before)
					res.Races++
				}
			} else {
				allowed = []string{verdictOf(spec.Config.Strict, e.CDP >= 0, usable, false, listed(issuer, e.Probe))}
			}
			// lists persisted on disk for locations nobody named since the restart may or may not be consulted
			if m.maybeListed(issuer, e.Probe) && allowed[0] == "ok" {
				allowed = append(allowed, "revoked")
			}
			hitsBefore := 0
			if race {
				hitsBefore = w.originOf(e.CDP).Hits(w.pathOf(e.CDP))
			}
			v := world.Ask(w.checker, w.leaf(issuer, e.Probe, e.CDP))
			if race {
				// The handshake started an asynchronous forced refresh (A). A is the only update run that can fetch this
				// location now, so once the origin has seen the fetch, A is inside the process-wide refresh critical
				// section (or already done); a non-forced tick then acts as a barrier: it can only start after A has
				// finished and is itself skipped as "recently finished".
				deadline := time.Now().Add(20 * time.Second)
				for w.originOf(e.CDP).Hits(w.pathOf(e.CDP)) < hitsBefore+1 && time.Now().Before(deadline) {
					time.Sleep(100 * time.Microsecond)
				}
				if w.originOf(e.CDP).Hits(w.pathOf(e.CDP)) < hitsBefore+1 {
					return res, fmt.Errorf("event %d: the background fetch started by the handshake never reached the origin (20 s)", i)
				}
				w.checker.VerifTick()
				m.tick()
				conf.tick()
			}
			res.Handshakes++
			okv := false
			for _, a := range allowed {
				if v.Kind == a {
					okv = true
				}
			}
			res.Trace = append(res.Trace, "hs:"+v.Kind)
			if v.Kind == "revoked" {
				res.Revoked++
			}
			if v.Kind == "error" {
				res.StrictDenials++
			}
			if !okv {
				return res, fmt.Errorf("event %d: handshake(issuer %d, serial %s, cdp %s) answered %v; model allows %v  [config %+v; in force: %s; origin: %s]",
					i, issuer, ProbeU[e.Probe], cdpStr(&spec, e.CDP), v, allowed, spec.Config, m.describe(), m.describeOrigin())
			}
		}
		if obs != nil {
			if err := obs.AfterEvent(i, e, w, m); err != nil {
				return res, fmt.Errorf("event %d (%s): %v", i, e.Kind, err)
			}
		}
	}
	return res, nil
}

func pkiWithName(base string, i int, keys [2]string) *world.SimplePKI {
	expired := strings.HasPrefix(base, "expired:")
	base = strings.TrimPrefix(base, "expired:")
	p := &world.SimplePKI{}
	p.Root = gen.Issue(gen.CertSpec{Key: keys[0], Subject: gen.NameSpec{{{T: "O", V: "verif"}}, {{T: "CN", V: fmt.Sprintf("%s root %d", strings.TrimPrefix(strings.TrimPrefix(base, "t61:"), "digit:"), i)}}}, SerialHex: "01", IsCA: true}, nil)
	if keys[1] != "" {
		p.Inter = gen.Issue(gen.CertSpec{Key: keys[1], Subject: issuerName(base, i), SerialHex: "02", IsCA: true, Expired: expired}, p.Root)
	} else {
		p.Root = gen.Issue(gen.CertSpec{Key: keys[0], Subject: issuerName(base, i), SerialHex: "01", IsCA: true, Expired: expired}, nil)
	}
	return p
}

func cdpStr(s *Spec, c int) string {
	if c < 0 {
		return "none"
	}
	return fmt.Sprintf("#%d(%s)", c, s.CDPs[c].Kind)
}

// verdictOf is the truth table of one handshake.
func verdictOf(strict, namesCDP, usable, loaded, listed bool) string {
	if strict && namesCDP && (!usable || !loaded) {
		return "error"
	}
	if listed {
		return "revoked"
	}
	return "ok"
}

func (m *Model) describe() string {
	var p []string
	for c, st := range m.proc {
		s := fmt.Sprintf("cdp%d:", c)
		switch {
		case st.loaded:
			s += setStr(st.set)
		case st.known:
			s += "not-loaded"
		default:
			s += "unknown"
		}
		if m.persisted[c] != nil {
			s += "/disk" + setStr(*m.persisted[c])
		}
		p = append(p, s)
	}
	return strings.Join(p, " ")
}

func (m *Model) describeOrigin() string {
	var p []string
	for c, o := range m.origin {
		p = append(p, fmt.Sprintf("cdp%d:%s%s", c, o.Kind, setStr(o.Set)))
	}
	return strings.Join(p, " ")
}

// InForce returns the list in force for CDP c in the running process (nil, false if none).
func (m *Model) InForce(c int) ([]int, bool) { return m.proc[c].set, m.proc[c].loaded }

// confModel tracks the configured lists (crl_files / crl_urls): always known, loaded at provisioning.
type confModel struct {
	m     *Model
	sets  map[string][]int // key "file:c" / "url:c"
	alien map[string]bool
	kind  map[string]string // content kind the set was accepted from
}

func newConfModel(m *Model) *confModel {
	return &confModel{m: m, sets: map[string][]int{}, alien: map[string]bool{}, kind: map[string]string{}}
}

func (c *confModel) reload() {
	if !c.m.spec.Config.Disk {
		c.sets = map[string][]int{}
		c.alien = map[string]bool{}
		c.kind = map[string]string{}
	}
	// a persisted configured list is re-verified under the mode of the new process: what does not verify under
	// 'verify' is not in force after the restart
	for k, kind := range c.kind {
		if !c.m.confAcceptable(Content{Kind: kind}) {
			delete(c.sets, k)
			delete(c.alien, k)
			delete(c.kind, k)
		}
	}
	c.tick()
}

func (c *confModel) tick() {
	for _, i := range c.m.spec.Config.ConfFiles {
		if c.m.confAcceptable(c.m.origin[i]) {
			c.sets[fmt.Sprintf("file:%d", i)] = append([]int(nil), c.m.origin[i].Set...)
			c.alien[fmt.Sprintf("file:%d", i)] = c.m.origin[i].Kind == "unknown-signer"
			c.kind[fmt.Sprintf("file:%d", i)] = c.m.origin[i].Kind
		}
	}
	for _, i := range c.m.spec.Config.ConfURLs {
		if c.m.confAcceptable(c.m.origin[i]) {
			c.sets[fmt.Sprintf("url:%d", i)] = append([]int(nil), c.m.origin[i].Set...)
			c.alien[fmt.Sprintf("url:%d", i)] = c.m.origin[i].Kind == "unknown-signer"
			c.kind[fmt.Sprintf("url:%d", i)] = c.m.origin[i].Kind
		}
	}
}

func (c *confModel) listed(issuer, p int) bool {
	for k, set := range c.sets {
		var i int
		fmt.Sscanf(k[strings.Index(k, ":")+1:], "%d", &i)
		if c.m.spec.CDPs[i].Issuer != issuer || c.alien[k] {
			continue
		}
		for _, e := range set {
			if listedBy(e, p) {
				return true
			}
		}
	}
	return false
}
