package c14

import (
	"crypto/x509"
	"fmt"
	"net/http"
	"os"
	"strings"
	"sync/atomic"
	"testing"
	"time"

	"verifharness/ev"
	"verifharness/gen"
	"verifharness/world"

	ocspchk "github.com/gr33nbl00d/caddy-revocation-validator/ocsp"
	"github.com/muesli/cache2go"
	"golang.org/x/crypto/ocsp"
	"pgregory.net/rapid"
)

// Case is one access pattern against the OCSP cache.
type Case struct {
	DMillis    int    `json:"d_ms"`        // default cache duration (0 = caching off)
	PeriodPct  int    `json:"period_pct"`  // read period in percent of D (20, 50, 200); for D=0 a fixed 20 ms
	NextUpdate string `json:"next_update"` // "" | past
	Reads      int    `json:"reads"`
	FlipAfter  int    `json:"flip_after"` // the responder flips good->revoked after this many reads
	Twin       string `json:"twin"`       // issuer of the second certificate differs in: cn | dc | email | order | none
	Instances  int    `json:"instances"`  // 1..2 checker instances used alternately
	FailFirst  bool   `json:"fail_first"` // the very first query fails (HTTP 500), must not be cached
	CAKey      string `json:"ca_key"`
	// Concurrent: before the timed pattern, two different certificates are checked at the same time on one
	// instance while the responder of the first answers slowly
	Concurrent bool `json:"concurrent"`
	// Outage: after the timed pattern the cached answer is left to run out, then the responder fails
	// (http500 | garbage | stranger-signed) and the certificate is read once more
	Outage string `json:"outage,omitempty"`
	// AgeHours: age of thisUpdate in the response used for the white-box lifetime check (nextUpdate = now + 1 h)
	AgeHours int `json:"age_hours"`
	// SoftFail: a lenient instance (ocsp_aia_strict off, same default duration) reads a third certificate while its
	// responder fails (http500 | garbage | stranger-signed); the handshake is accepted without an answer, then the
	// responder recovers and answers 'revoked'
	SoftFail string `json:"soft_fail,omitempty"`
}

func genCase(t *rapid.T) Case {
	c := Case{
		DMillis:    rapid.SampledFrom([]int{0, 300, 400, 600}).Draw(t, "d"),
		PeriodPct:  rapid.SampledFrom([]int{20, 50, 200}).Draw(t, "period"),
		NextUpdate: rapid.SampledFrom([]string{"", "", "past"}).Draw(t, "next"),
		FlipAfter:  rapid.IntRange(1, 3).Draw(t, "flip"),
		Twin:       rapid.SampledFrom([]string{"none", "cn", "dc", "email", "order", "std-order", "dup-cn", "grouping", "org"}).Draw(t, "twin"),
		Instances:  rapid.IntRange(1, 2).Draw(t, "inst"),
		FailFirst:  rapid.IntRange(0, 3).Draw(t, "failfirst") == 0,
		CAKey:      rapid.SampledFrom([]string{"p256a", "rsa2048a"}).Draw(t, "cakey"),
		Concurrent: rapid.Bool().Draw(t, "concurrent"),
		Outage:     rapid.SampledFrom([]string{"", "http500", "garbage", "stranger"}).Draw(t, "outage"),
		AgeHours:   rapid.SampledFrom([]int{0, 1, 6, 48}).Draw(t, "age"),
		SoftFail:   rapid.SampledFrom([]string{"", "http500", "garbage", "stranger"}).Draw(t, "softfail"),
	}
	c.Reads = rapid.IntRange(6, 14).Draw(t, "reads")
	return c
}

var seq atomic.Int64

const slack = 60 * time.Millisecond

func issuerNames(base, twin string) (gen.NameSpec, gen.NameSpec) {
	a := gen.NameSpec{{{T: "DC", V: "example", Kind: "ia5"}}, {{T: "DC", V: "corp", Kind: "ia5"}}, {{T: "O", V: "verif"}}, {{T: "CN", V: base + " issuing ca"}}}
	switch twin {
	case "cn":
		return a, gen.NameSpec{{{T: "DC", V: "example", Kind: "ia5"}}, {{T: "DC", V: "corp", Kind: "ia5"}}, {{T: "O", V: "verif"}}, {{T: "CN", V: base + " issuing ca 2"}}}
	case "dc":
		return a, gen.NameSpec{{{T: "DC", V: "example", Kind: "ia5"}}, {{T: "DC", V: "lab", Kind: "ia5"}}, {{T: "O", V: "verif"}}, {{T: "CN", V: base + " issuing ca"}}}
	case "email":
		return a, gen.NameSpec{{{T: "DC", V: "example", Kind: "ia5"}}, {{T: "DC", V: "corp", Kind: "ia5"}}, {{T: "O", V: "verif"}}, {{T: "CN", V: base + " issuing ca"}}, {{T: "EMAIL", V: "ca@example.org", Kind: "ia5"}}}
	case "order":
		return a, gen.NameSpec{{{T: "DC", V: "corp", Kind: "ia5"}}, {{T: "DC", V: "example", Kind: "ia5"}}, {{T: "O", V: "verif"}}, {{T: "CN", V: base + " issuing ca"}}}
	}
	// names of standard attributes only, which normalising renderings (pkix.Name.String) re-order, de-duplicate and flatten
	std := gen.NameSpec{{{T: "C", V: "DE", Kind: "printable"}}, {{T: "O", V: "verif"}}, {{T: "CN", V: base + " issuing ca"}}}
	switch twin {
	case "std-order": // X.500 order vs LDAP order
		return std, gen.NameSpec{{{T: "CN", V: base + " issuing ca"}}, {{T: "O", V: "verif"}}, {{T: "C", V: "DE", Kind: "printable"}}}
	case "org": // same common name, another organisation
		return std, gen.NameSpec{{{T: "C", V: "DE", Kind: "printable"}}, {{T: "O", V: "verif two"}}, {{T: "CN", V: base + " issuing ca"}}}
	case "dup-cn": // an additional, earlier CN
		return std, gen.NameSpec{{{T: "C", V: "DE", Kind: "printable"}}, {{T: "O", V: "verif"}}, {{T: "CN", V: "former name"}}, {{T: "CN", V: base + " issuing ca"}}}
	case "grouping": // O and CN in ONE multi-valued RDN
		return std, gen.NameSpec{{{T: "C", V: "DE", Kind: "printable"}}, {{T: "O", V: "verif"}, {T: "CN", V: base + " issuing ca"}}}
	}
	return a, nil
}

func runCase(c Case, x *ev.Ctx) error {
	id := seq.Add(1)
	base := fmt.Sprintf("c14-%d-%d", os.Getpid(), id)
	o := world.NewOrigin()
	defer o.Close()
	nameA, nameB := issuerNames(base, c.Twin)
	caA := gen.Issue(gen.CertSpec{Key: c.CAKey, Subject: nameA, SerialHex: "1001", IsCA: true}, nil)
	leafA := gen.Issue(gen.CertSpec{Key: "p256f", Subject: gen.CN(base + " client"), SerialHex: "5151", OCSP: []string{o.URL("/a")}}, caA)
	pa := world.NewOCSPParties(base+"a", caA, leafA)
	ra := world.NewResponder(o, "/a", pa, world.OCSPAnswer{Kind: "good", NextUpdate: c.NextUpdate})
	chainsA := [][]*x509.Certificate{{leafA.Cert, caA.Cert}}
	D := time.Duration(c.DMillis) * time.Millisecond
	// another validator of the same process, provisioned FIRST, with a long default cache duration: what it is
	// configured with must not leak into the instances under observation
	_ = world.NewOCSPChecker(world.OCSPOpts{Strict: true, Cache: time.Hour})
	var chk []world.Checker
	for i := 0; i < c.Instances; i++ {
		chk = append(chk, world.NewOCSPChecker(world.OCSPOpts{Strict: true, Cache: D}))
	}
	period := 20 * time.Millisecond
	if D > 0 {
		period = D * time.Duration(c.PeriodPct) / 100
	}
	if c.FailFirst {
		ra.Set(world.OCSPAnswer{Kind: "http500"})
		if v := world.Ask(chk[0], chainsA); v.Kind != "error" {
			return fmt.Errorf("setup: failed query in strict mode answered %v", v)
		}
		before := ra.Requests()
		ra.Set(world.OCSPAnswer{Kind: "good", NextUpdate: c.NextUpdate})
		if v := world.Ask(chk[0], chainsA); v.Kind != "ok" || ra.Requests() == before {
			return fmt.Errorf("after a FAILED query the next handshake answered %v with %d new responder requests: a failed query must not be cached", v, ra.Requests()-before)
		}
		x.Class("failed-query-not-cached")
	}
	if c.SoftFail != "" {
		leafS := gen.Issue(gen.CertSpec{Key: "p256f", Subject: gen.CN(base + " soft client"), SerialHex: "5353", OCSP: []string{o.URL("/s")}}, caA)
		first := world.OCSPAnswer{Kind: c.SoftFail}
		if c.SoftFail == "stranger" {
			first = world.OCSPAnswer{Kind: "good", Signer: "stranger"}
		}
		rs := world.NewResponder(o, "/s", world.NewOCSPParties(base+"s", caA, leafS), first)
		chainsS := [][]*x509.Certificate{{leafS.Cert, caA.Cert}}
		lenient := world.NewOCSPChecker(world.OCSPOpts{Strict: false, Cache: D})
		if v := world.Ask(lenient, chainsS); v.Kind != "ok" {
			return fmt.Errorf("setup: lenient instance, responder failing (%s): answered %v", c.SoftFail, v)
		}
		before := rs.Requests()
		rs.Set(world.OCSPAnswer{Kind: "revoked", NextUpdate: c.NextUpdate})
		if v := world.Ask(lenient, chainsS); v.Kind != "revoked" {
			return fmt.Errorf("lenient instance (default_cache_duration %v): after a query WITHOUT an authentic answer (%s, handshake accepted) the responder recovered and answers 'revoked', but the next handshake answered %v with %d new responder requests: the outcome of a failed query was cached", D, c.SoftFail, v, rs.Requests()-before)
		}
		x.Classf("soft-fail-not-cached=%s", c.SoftFail)
	}
	// the twin certificate: other issuer, identical subject and serial; its responder says revoked
	var chainsB [][]*x509.Certificate
	var rb *world.Responder
	if nameB != nil {
		caB := gen.Issue(gen.CertSpec{Key: c.CAKey, Subject: nameB, SerialHex: "1001", IsCA: true}, nil)
		leafB := gen.Issue(gen.CertSpec{Key: "p256f", Subject: gen.CN(base + " client"), SerialHex: "5151", OCSP: []string{o.URL("/b")}}, caB)
		pb := world.NewOCSPParties(base+"b", caB, leafB)
		rb = world.NewResponder(o, "/b", pb, world.OCSPAnswer{Kind: "revoked", NextUpdate: c.NextUpdate})
		chainsB = [][]*x509.Certificate{{leafB.Cert, caB.Cert}}
	}
	if err := whiteBoxLifetime(c, base, o, chk[0], x); err != nil {
		return err
	}
	// the same with an instance whose default duration is far longer than the response's remaining validity
	if err := whiteBoxLifetime(c, base+" long default", o, world.NewOCSPChecker(world.OCSPOpts{Strict: true, Cache: []time.Duration{2 * time.Hour, 24 * time.Hour}[c.AgeHours%2]}), x); err != nil {
		return fmt.Errorf("instance with a long default_cache_duration: %v", err)
	}
	if c.Concurrent {
		if err := concurrentCerts(c, base, o, x); err != nil {
			return err
		}
	}
	status := "good"
	var lastFetchDone time.Time // time after the read that last hit the responder returned (entry creation is earlier)
	stale, fresh, hits := 0, 0, 0
	for i := 0; i < c.Reads; i++ {
		if i == c.FlipAfter {
			ra.Set(world.OCSPAnswer{Kind: "revoked", NextUpdate: c.NextUpdate})
			status = "revoked"
		}
		inst := chk[i%len(chk)]
		before := ra.Requests()
		start := time.Now()
		v := world.Ask(inst, chainsA)
		hit := ra.Requests() > before
		if hit {
			hits++
		}
		want := "ok"
		if status == "revoked" {
			want = "revoked"
		}
		switch {
		case v.Kind != "ok" && v.Kind != "revoked":
			return fmt.Errorf("read %d answered %v", i, v)
		case hit && v.Kind != want:
			return fmt.Errorf("read %d asked the responder (which says %s) but answered %v", i, status, v)
		case D == 0 && !hit:
			return fmt.Errorf("read %d was served without asking the responder although default_cache_duration is 0 and the response has no usable nextUpdate (%q): nothing may be cached", i, c.NextUpdate)
		case !hit && !lastFetchDone.IsZero() && start.After(lastFetchDone.Add(D+slack)):
			return fmt.Errorf("read %d started %v after the cached answer was obtained (lifetime %v) and was still served from the cache (verdict %v, responder says %s; read period %v, %d instance(s))", i, start.Sub(lastFetchDone), D, v, status, period, len(chk))
		}
		if hit {
			lastFetchDone = time.Now()
			fresh++
		} else {
			stale++
		}
		// the twin must get its own answer, never the other certificate's cache entry
		if rb != nil && i == 1 {
			bb := rb.Requests()
			vb := world.Ask(inst, chainsB)
			if vb.Kind != "revoked" || rb.Requests() == bb {
				return fmt.Errorf("certificate of ANOTHER issuer (issuer names differ in %s) with the same subject and serial answered %v with %d requests to its own responder: it was served from the other certificate's cache entry", c.Twin, vb, rb.Requests()-bb)
			}
			x.Classf("twin-%s", c.Twin)
		}
		time.Sleep(period)
	}
	if c.Outage != "" && !lastFetchDone.IsZero() {
		// the lifetime of whatever is cached ends; then nobody answers authentically: every instance is strict, so
		// the certificate must be denied - a status whose lifetime is over is not an answer any more
		if wait := time.Until(lastFetchDone.Add(D + slack + 10*time.Millisecond)); wait > 0 {
			time.Sleep(wait)
		}
		switch c.Outage {
		case "stranger":
			ra.Set(world.OCSPAnswer{Kind: "good", Signer: "stranger"})
		default:
			ra.Set(world.OCSPAnswer{Kind: c.Outage})
		}
		for i, inst := range chk {
			before := ra.Requests()
			v := world.Ask(inst, chainsA)
			if v.Kind != "error" {
				return fmt.Errorf("the cached answer's lifetime (%v) ended %v ago and the responder now fails (%s): strict instance %d answered %v with %d new responder requests instead of denying - an expired status was served", D, time.Since(lastFetchDone.Add(D)), c.Outage, i, v, ra.Requests()-before)
			}
		}
		x.Classf("outage-after-expiry=%s", c.Outage)
	}
	x.Classf("D=%dms/period=%d%%", c.DMillis, c.PeriodPct)
	if stale > 0 {
		x.Class("served-from-cache-observed")
	}
	if fresh >= 2 && D > 0 {
		x.Class("re-fetch-after-expiry-observed")
	}
	x.NonTrivial(fmt.Sprintf("%+v", c))
	return nil
}

// whiteBoxLifetime: lifetimes of nextUpdate + 15 min cannot be waited out, so the stored lifetime of the cache entry is
// read from the cache library (table "ocsp_client", public LifeSpan of the item): it must not exceed
// nextUpdate - now + 15 min, however old thisUpdate is. Skipped silently if the table or the item cannot be found.
func whiteBoxLifetime(c Case, base string, o *world.Origin, chk world.Checker, x *ev.Ctx) error {
	ca := gen.Issue(gen.CertSpec{Key: c.CAKey, Subject: gen.CN(base + " wb ca"), SerialHex: "1001", IsCA: true}, nil)
	leaf := gen.Issue(gen.CertSpec{Key: "p256f", Subject: gen.CN(base + " wb client"), SerialHex: "6161", OCSP: []string{o.URL("/wb")}}, ca)
	parties := world.NewOCSPParties(base+"wb", ca, leaf)
	age := time.Duration(c.AgeHours) * time.Hour
	next := time.Now().Add(time.Hour)
	o.Set("/wb", func(w http.ResponseWriter, r *http.Request, body []byte, n int) {
		der, err := ocsp.CreateResponse(ca.Cert, ca.Cert, ocsp.Response{Status: ocsp.Good, SerialNumber: leaf.Cert.SerialNumber,
			ThisUpdate: time.Now().Add(-age - time.Minute), NextUpdate: next}, ca.Key.Signer)
		if err != nil {
			panic(err)
		}
		w.Write(der)
	})
	_ = parties
	before := time.Now()
	if v := world.Ask(chk, [][]*x509.Certificate{{leaf.Cert, ca.Cert}}); v.Kind != "ok" {
		return fmt.Errorf("white-box probe: authentic good answer got %v", v)
	}
	found, known := false, false
	var life time.Duration
	cache2go.Cache("ocsp_client").Foreach(func(key interface{}, item *cache2go.CacheItem) {
		if !item.CreatedOn().Before(before) && strings.Contains(fmt.Sprint(key), leaf.Cert.SerialNumber.String()) {
			found = true
			// the lifetime of the entry: the cache library's own (sliding) lifespan if it has one, and the absolute
			// expiry the checker stores with the response (verif export); the larger indication counts
			if l := item.LifeSpan(); l > 0 {
				known, life = true, l
			}
			if exp, ok := ocspchk.VerifCachedResponseExpiry(item.Data()); ok {
				known = true
				if l := exp.Sub(item.CreatedOn()); l > life {
					life = l
				}
			}
		}
	})
	if !found {
		x.Class("white-box-item-not-found")
		return nil
	}
	if !known {
		return fmt.Errorf("white-box probe: the cache entry of an authentic answer with nextUpdate in one hour carries neither a lifespan nor an expiry: it would be served for ever")
	}
	x.Class("white-box-lifetime-checked")
	limit := time.Until(next) + 15*time.Minute + time.Since(before) + 5*time.Second
	if life > limit {
		return fmt.Errorf("cache entry lifetime %v exceeds nextUpdate - now + 15 min = %v (thisUpdate was %v old): the entry would be served after nextUpdate plus the clock-skew allowance", life, limit, age)
	}
	return nil
}

// concurrentCerts: certificate A (good, slow responder) and certificate B (revoked) are checked at the same time on one
// instance; afterwards B must still be reported revoked and A good (each from its own answer or its own cache entry).
func concurrentCerts(c Case, base string, o *world.Origin, x *ev.Ctx) error {
	ca := gen.Issue(gen.CertSpec{Key: c.CAKey, Subject: gen.CN(base + " cc ca"), SerialHex: "1001", IsCA: true}, nil)
	leafA := gen.Issue(gen.CertSpec{Key: "p256f", Subject: gen.CN(base + " cc a"), SerialHex: "7171", OCSP: []string{o.URL("/cca")}}, ca)
	leafB := gen.Issue(gen.CertSpec{Key: "p256f", Subject: gen.CN(base + " cc b"), SerialHex: "7272", OCSP: []string{o.URL("/ccb")}}, ca)
	release := make(chan struct{})
	arrived := make(chan struct{}, 4)
	mk := func(leaf *gen.Cert, status int, slow bool) world.Handler {
		return func(w http.ResponseWriter, r *http.Request, body []byte, n int) {
			if slow && n == 1 {
				arrived <- struct{}{}
				<-release
			}
			tpl := ocsp.Response{Status: status, SerialNumber: leaf.Cert.SerialNumber, ThisUpdate: time.Now().Add(-time.Minute)}
			if status == ocsp.Revoked {
				tpl.RevokedAt = time.Now().Add(-time.Hour)
			}
			der, _ := ocsp.CreateResponse(ca.Cert, ca.Cert, tpl, ca.Key.Signer)
			w.Write(der)
		}
	}
	o.Set("/cca", mk(leafA, ocsp.Good, true))
	o.Set("/ccb", mk(leafB, ocsp.Revoked, false))
	chk := world.NewOCSPChecker(world.OCSPOpts{Strict: true, Cache: 30 * time.Second})
	chA, chB := [][]*x509.Certificate{{leafA.Cert, ca.Cert}}, [][]*x509.Certificate{{leafB.Cert, ca.Cert}}
	resA := make(chan world.Verdict, 1)
	go func() { resA <- world.Ask(chk, chA) }()
	select {
	case <-arrived:
	case <-time.After(10 * time.Second):
		close(release)
		return fmt.Errorf("setup: responder of certificate A was never asked")
	}
	vb := world.Ask(chk, chB) // B is checked while A's query is in flight
	close(release)
	va := <-resA
	if va.Kind != "ok" || vb.Kind != "revoked" {
		return fmt.Errorf("concurrent checks: A (good) -> %v, B (revoked) -> %v", va, vb)
	}
	// second look: each certificate must get ITS status (from its own cache entry or a new query)
	if v := world.Ask(chk, chB); v.Kind != "revoked" {
		return fmt.Errorf("after certificate A (good) and certificate B (revoked) were checked at the same time, B is answered %v: a status obtained for another certificate was returned for it", v)
	}
	if v := world.Ask(chk, chA); v.Kind != "ok" {
		return fmt.Errorf("after concurrent checks certificate A (good) is answered %v", v)
	}
	x.Class("concurrent-certificates")
	return nil
}

var spec = ev.Spec[Case]{
	ID:   "C14",
	Gen:  genCase,
	Run:  runCase,
	Rule: "rapid draws an access pattern: default cache duration D in {0, 300, 400, 600 ms}, read period in {D/5, D/2, 2D}, 6..14 reads alternating over 1..2 checker instances, responder flip good->revoked after 1..3 reads, nextUpdate in {absent, already past}, optionally a first query that fails, and a twin certificate with identical subject and serial from another issuer whose name differs in CN / a DC component / an added emailAddress / RDN order (of DC components, or X.500 vs LDAP order of C, O, CN) / the organisation only (same CN) / an additional earlier CN / the grouping of O and CN into one multi-valued RDN. Oracles: (a) a read that STARTS more than D + 60 ms after the answer now cached was obtained must ask the responder again (upper bound only: slowness adds time and can never cause a failure); a read that asked the responder returns the responder's current status; (b) the twin triggers a request to its own responder and gets its own verdict; (c) with D = 0 and no usable nextUpdate every read asks the responder; (d) after a failed query the next read asks again; (e) white-box (on the observed instance and on one whose default duration is 2 h / 24 h; another instance with a 1 h default is always provisioned first in the process): after an authentic answer with nextUpdate = now + 1 h and a thisUpdate 0 / 1 / 6 / 48 h old, the lifetime stored with the cache entry (the cache library's LifeSpan and / or the absolute expiry kept with the response, read through a verif export) is at most nextUpdate - now + 15 min; (g) optionally, after the pattern the cached answer runs out and the responder then fails (HTTP 500, garbage, or an answer signed by a stranger): every (strict) instance must deny; (f) in half of the cases two different certificates are first checked concurrently on one instance while the first responder is held, and each must afterwards get its own status. Every case is non-trivial; distinct by the full pattern.",
	Assumptions: []string{
		"lifetimes of nextUpdate + 15 min cannot be waited out; the default-duration lifetime is exercised in time, the nextUpdate lifetime is read white-box from the cache library's item (skipped if the item cannot be found)",
		"wall-clock: only lower bounds on elapsed time are used, so a slow machine cannot produce a violation",
	},
}

func TestMain(m *testing.M) {
	code := m.Run()
	world.Cleanup()
	os.Exit(code)
}

func TestProp(t *testing.T)   { ev.Check(t, spec) }
func TestReplay(t *testing.T) { ev.Replay(t, spec) }
