package c09

import (
	"crypto/x509"
	"fmt"
	"math/big"
	"net/http"
	"os"
	"path/filepath"
	"sort"
	"strings"
	"sync"
	"testing"
	"time"

	"verifharness/ev"
	"verifharness/gen"
	"verifharness/world"

	"github.com/gr33nbl00d/caddy-revocation-validator/core"
	"github.com/gr33nbl00d/caddy-revocation-validator/core/verifhook"
	"github.com/gr33nbl00d/caddy-revocation-validator/crl"
	"github.com/gr33nbl00d/caddy-revocation-validator/crl/crlrepository"
	"github.com/gr33nbl00d/caddy-revocation-validator/crl/crlstore"
	"github.com/syndtr/goleveldb/leveldb"
	"github.com/syndtr/goleveldb/leveldb/util"
	"pgregory.net/rapid"
)

// Case is one lookup-time storage fault.
type Case struct {
	Backend string `json:"backend"` // disk | memory
	Level   string `json:"level"`   // repo | checker
	Fault   string `json:"fault"`   // closed | corrupt-value | corrupt-table | swap-failure | race-close | swap-sabotage
	// Site (swap-sabotage): the step of the real LevelDB swap at which every crl_*_tmp directory below work_dir vanishes
	Site   string `json:"site,omitempty"`
	N      int    `json:"n"` // listed entries
	Damage string `json:"damage,omitempty"`
	KeyIdx int    `json:"key_idx,omitempty"`
	Bytes  []byte `json:"bytes,omitempty"`
	Offset int    `json:"offset,omitempty"`
	Strict bool   `json:"strict,omitempty"`
	Extra  int    `json:"extra,omitempty"` // additional healthy CRLs (other issuers) in the same repository
	// ViaCDP: the list is not a configured file but the one named in the probed certificates' own distribution point
	// (fetched over HTTP); the probes carry that distribution point
	ViaCDP  bool     `json:"via_cdp,omitempty"`
	Serials []string `json:"serials"`
	// Bulk (table-removed): this many further synthetic serials are listed, so that LevelDB keeps the list in several
	// table files of which the restart opens only the one holding the metadata
	Bulk int `json:"bulk,omitempty"`
}

const knownSwap = "C09-failed-swap-drops-entry"

func genCase(t *rapid.T) Case {
	c := Case{
		Backend: rapid.SampledFrom([]string{"disk", "disk", "memory"}).Draw(t, "backend"),
		Level:   rapid.SampledFrom([]string{"repo", "checker"}).Draw(t, "level"),
		Strict:  rapid.Bool().Draw(t, "strict"),
		ViaCDP:  rapid.IntRange(0, 2).Draw(t, "viacdp") == 0,
	}
	faults := []string{"closed", "corrupt-value", "corrupt-value", "race-close", "swap-failure"}
	if c.Backend == "disk" {
		// ("corrupt-journal" exists as a fault kind for replays, but is not drawn: LevelDB replays the journal into a table
		// when the swapped-in store is reopened, so in every flow of the product the journal of a store in force is empty)
		faults = append(faults, "corrupt-table", "corrupt-table")
	}
	c.Fault = rapid.SampledFrom(faults).Draw(t, "fault")
	sab := rapid.IntRange(0, 99).Draw(t, "sabotage")
	if c.Backend == "disk" && (sab == 11 || sab == 59) {
		// rare (a list of 60000 entries is loaded): table files vanish after the restart
		c.Fault = "table-removed"
	}
	if c.Backend == "disk" && (sab == 73 || sab == 37) { // (not an edge value: rapid favours those)
		// rare (each case waits for the store's rename retries): the REAL swap of the disk back-end fails half-way
		c.Fault = "swap-sabotage"
		c.Site = rapid.SampledFrom([]string{"leveldb.update.start", "leveldb.update.old-closed", "leveldb.update.new-closed", "leveldb.update.old-moved", "leveldb.update.old-moved"}).Draw(t, "site")
	}
	c.N = rapid.IntRange(1, 12).Draw(t, "n")
	c.Extra = rapid.SampledFrom([]int{0, 0, 1, 2, 3}).Draw(t, "extra")
	if c.Fault == "table-removed" {
		c.Bulk = 250000
	}
	if c.Fault == "corrupt-table" || c.Fault == "corrupt-journal" || c.Fault == "table-removed" {
		c.N = rapid.IntRange(50, 400).Draw(t, "n_big")
		c.Offset = rapid.IntRange(0, 1<<20).Draw(t, "offset")
		c.Bytes = rapid.SliceOfN(rapid.Byte(), 1, 4).Draw(t, "flip")
	}
	seen := map[string]bool{}
	for len(c.Serials) < c.N {
		s := gen.NormSerialHex(gen.DrawSerialHex(t, fmt.Sprintf("s%d", len(c.Serials))))
		if c.Fault == "corrupt-table" || c.Fault == "corrupt-journal" || c.Fault == "table-removed" {
			s = fmt.Sprintf("%s%04x", s[:min(len(s), 30)], len(c.Serials))
		}
		if !seen[s] {
			seen[s] = true
			c.Serials = append(c.Serials, s)
		}
	}
	if c.Fault == "corrupt-value" {
		c.Damage = rapid.SampledFrom([]string{"empty", "truncate", "random", "flip", "one-byte"}).Draw(t, "damage")
		c.KeyIdx = rapid.IntRange(0, 1<<16).Draw(t, "keyidx")
		c.Bytes = rapid.SliceOfN(rapid.Byte(), 1, 24).Draw(t, "dbytes")
	}
	return c
}

// capture remembers the live (non temporary) stores the repository creates.
type capture struct {
	inner crlstore.Factory
	plan  *world.FaultPlan
	mu    sync.Mutex
	live  []crlstore.CRLStore
}

func (f *capture) CreateStore(id string, temp bool) (crlstore.CRLStore, error) {
	st, err := world.FaultFactory{Inner: f.inner, Plan: f.plan}.CreateStore(id, temp)
	if err == nil && !temp {
		f.mu.Lock()
		f.live = append(f.live, st)
		f.mu.Unlock()
	}
	return st, err
}

func realStore(s crlstore.CRLStore) crlstore.CRLStore {
	if fs, ok := s.(*world.FaultStore); ok {
		return fs.Unwrap()
	}
	return s
}

type lookuper func(cert *x509.Certificate) world.Verdict

var caseSeq int

func runCase(c Case, x *ev.Ctx) error {
	caseSeq++
	dir := world.NewDir("c09")
	defer os.RemoveAll(dir)
	wd := filepath.Join(dir, "work")
	os.MkdirAll(wd, 0o755)
	pki := world.NewSimplePKI(fmt.Sprintf("c09-%d", caseSeq), "p256a", "")
	crlFile := filepath.Join(dir, "list.crl")
	if c.Bulk > 0 {
		all := append([]string{}, c.Serials...)
		for i := 0; i < c.Bulk; i++ {
			all = append(all, fmt.Sprintf("b0%032x", uint64(i)*0x9e3779b97f4a7c15))
		}
		c.Serials = all
	}
	os.WriteFile(crlFile, pki.CRL(1, c.Serials...), 0o600)
	opts := world.CRLOpts{WorkDir: wd, Disk: c.Backend == "disk", Strict: c.Strict, Trusted: []*x509.Certificate{pki.Root.Cert}}
	plan := &world.FaultPlan{}
	capf := &capture{plan: plan}

	var repo *crlrepository.Repository
	var checker *crl.CRLRevocationChecker
	loc := &core.CRLLocations{CRLFile: crlFile}
	var cdp []string
	if c.ViaCDP {
		o := world.NewOrigin()
		defer o.Close()
		o.Set("/list.crl", func(w http.ResponseWriter, r *http.Request, _ []byte, _ int) { http.ServeFile(w, r, crlFile) })
		cdp = []string{o.URL("/list.crl")}
		loc = &core.CRLLocations{CRLDistributionPoints: cdp}
		x.Class("list-from-the-certificates-own-cdp")
	}
	chains := core.NewCertificateChains(nil, []*x509.Certificate{pki.Root.Cert})
	if c.Level == "repo" {
		st := crlstore.Map
		if opts.Disk {
			st = crlstore.LevelDB
		}
		err, r := crlrepository.NewCRLRepository(world.Logger(), opts.Config(), st)
		if err != nil {
			return fmt.Errorf("setup: NewCRLRepository: %v", err)
		}
		repo = r
		capf.inner = repo.Factory
		repo.Factory = capf
		if _, err := repo.AddCRL(loc, chains); err != nil {
			return fmt.Errorf("setup: AddCRL of a healthy CRL failed: %v", err)
		}
	} else {
		ch, err := world.NewChecker(opts)
		if err != nil {
			return fmt.Errorf("setup: Provision: %v", err)
		}
		checker = ch
		repo = checker.VerifRepository()
		capf.inner = repo.Factory
		repo.Factory = capf
		if _, err := repo.AddCRL(loc, chains); err != nil {
			checker.Cleanup()
			return fmt.Errorf("setup: AddCRL of a healthy CRL failed: %v", err)
		}
	}
	// further healthy CRLs of other issuers that do not list the probes: an error of the
	// damaged store must not be lost because another store answered "not listed"
	if c.Fault != "closed" && c.Fault != "race-close" {
		for i := 0; i < c.Extra; i++ {
			other := world.NewSimplePKI(fmt.Sprintf("c09-%d-extra%d", caseSeq, i), "p256b", "")
			f := filepath.Join(dir, fmt.Sprintf("extra%d.crl", i))
			os.WriteFile(f, other.CRL(1, "0a", "0b"), 0o600)
			oc := core.NewCertificateChains(nil, []*x509.Certificate{other.Root.Cert})
			if _, err := repo.AddCRL(&core.CRLLocations{CRLFile: f}, oc); err != nil {
				return fmt.Errorf("setup: AddCRL of extra healthy CRL failed: %v", err)
			}
		}
	}
	closed := false
	closeAll := func() {
		if closed {
			return
		}
		closed = true
		if checker != nil {
			checker.Cleanup()
		} else {
			repo.Close()
		}
	}
	defer closeAll()

	ask := func(cert *x509.Certificate) world.Verdict {
		if checker != nil {
			return world.Ask(checker, pki.ChainFor(&gen.Cert{Cert: cert}))
		}
		v, err := world.Call("Repository.IsRevoked", world.DefaultWatchdog, func() world.Verdict {
			var locs *core.CRLLocations
			if len(cert.CRLDistributionPoints) > 0 {
				locs = &core.CRLLocations{CRLDistributionPoints: cert.CRLDistributionPoints}
			}
			st, err := repo.IsRevoked(cert, locs)
			if err != nil {
				return world.Verdict{Kind: "error", Err: err.Error()}
			}
			if st.Revoked {
				return world.Verdict{Kind: "revoked"}
			}
			return world.Verdict{Kind: "ok"}
		})
		if err != nil {
			return world.Verdict{Kind: "panic-or-hang", Err: err.Error()}
		}
		return v
	}
	// probes: a few listed, one unlisted
	var listed []*x509.Certificate
	for i, s := range c.Serials {
		if i < 6 || (c.Fault == "corrupt-table" || c.Fault == "corrupt-journal") && i%7 == 0 || c.Fault == "table-removed" && i%997 == 0 {
			listed = append(listed, pki.Leaf(s, cdp, nil).Cert)
		}
	}
	unl := new(big.Int).Add(gen.SerialFromHex(c.Serials[0]), big.NewInt(1))
	for contains(c.Serials, unl.Text(16)) {
		unl.Add(unl, big.NewInt(1))
	}
	unlisted := pki.Leaf(evenHex(unl.Text(16)), cdp, nil).Cert

	// healthy baseline: the harness itself must not be the cause of errors
	for _, l := range listed {
		if v := ask(l); v.Kind != "revoked" {
			return fmt.Errorf("setup: healthy store does not report listed serial %s revoked: %v", l.SerialNumber.Text(16), v)
		}
	}
	if v := ask(unlisted); v.Kind != "ok" {
		return fmt.Errorf("setup: healthy store does not accept the unlisted serial: %v", v)
	}

	judge := func(when string) error {
		for _, l := range listed {
			v := ask(l)
			switch v.Kind {
			case "revoked", "error":
			case "ok":
				return fmt.Errorf("%s: lookup of LISTED serial %s answered 'not revoked' without error (fault %s, %s, %s)", when, l.SerialNumber.Text(16), c.Fault, c.Backend, c.Level)
			default:
				return fmt.Errorf("%s: lookup of listed serial %s: %v", when, l.SerialNumber.Text(16), v)
			}
			x.Classf("listed->%s", v.Kind)
		}
		v := ask(unlisted)
		switch v.Kind {
		case "ok", "error":
		case "revoked":
			// a damaged record cannot make another key revoked
			return fmt.Errorf("%s: unlisted serial reported revoked after fault %s", when, c.Fault)
		default:
			return fmt.Errorf("%s: lookup of unlisted serial: %v", when, v)
		}
		x.Classf("unlisted->%s", v.Kind)
		return nil
	}

	capf.mu.Lock()
	var live crlstore.CRLStore
	if len(capf.live) > 0 {
		live = realStore(capf.live[0]) // the store of the probed CRL (created first)
	}
	capf.mu.Unlock()
	if live == nil {
		return fmt.Errorf("setup: no live store was created")
	}

	switch c.Fault {
	case "closed":
		closeAll()
		if err := judge("after close"); err != nil {
			return err
		}
		if c.Backend == "disk" {
			// global fault: on disk nothing can be read any more, every lookup must be an error
			if v := ask(unlisted); v.Kind != "error" {
				return fmt.Errorf("after close (disk): lookup of an unlisted serial answered %v although the database is closed", v)
			}
		}
	case "corrupt-value":
		n, err := damageValue(live, c)
		if err != nil {
			return fmt.Errorf("setup: %v", err)
		}
		x.Classf("damaged-%s", c.Damage)
		_ = n
		if err := judge("after value damage"); err != nil {
			return err
		}
	case "corrupt-table", "corrupt-journal", "table-removed":
		ld := live.(*crlstore.LevelDbStore)
		pattern := "*.log" // the records of a freshly swapped-in list live in the journal until LevelDB compacts it
		if c.Fault == "corrupt-table" || c.Fault == "table-removed" {
			pattern = "*.ldb"
			if err := ld.Db.CompactRange(util.Range{}); err != nil {
				return fmt.Errorf("setup: compact: %v", err)
			}
		}
		path := ld.LevelDBPath
		closeAll()
		tables, _ := filepath.Glob(filepath.Join(path, pattern))
		if len(tables) == 0 {
			x.Class("no-table-file")
			return nil
		}
		sort.Strings(tables)
		b, _ := os.ReadFile(tables[0])
		if c.Fault == "table-removed" {
			b = append([]byte{}, b...) // the file stays intact until the store is open again
		}
		if len(b) == 0 {
			// (journal) LevelDB replayed the journal into a table when the swapped-in store was reopened: nothing to damage
			x.Class("file-empty/" + c.Fault)
			return nil
		}
		off := c.Offset % len(b)
		for i, d := range c.Bytes {
			if off+i < len(b) {
				b[off+i] ^= d | 1
			}
		}
		if c.Fault != "table-removed" {
			os.WriteFile(tables[0], b, 0o600)
		}
		// restart on the damaged directory
		closed = false
		checker = nil
		st := crlstore.LevelDB
		err, r := crlrepository.NewCRLRepository(world.Logger(), opts.Config(), st)
		if err != nil {
			return fmt.Errorf("setup: reopen repository: %v", err)
		}
		repo = r
		capf2 := &capture{inner: repo.Factory, plan: &world.FaultPlan{}}
		repo.Factory = capf2
		if _, err := repo.AddCRL(loc, chains); err != nil {
			x.Class("reopen-failed")
			x.NonTrivial(fmt.Sprintf("%s|reopen-failed|%d", c.Fault, c.N/50))
			return nil // clean error at open time: fail closed
		}
		if c.Fault == "table-removed" {
			// the table files vanish after the store was opened and before any of them was read (LevelDB opens tables
			// lazily): a plain I/O error (no such file), neither "closed" nor "corrupted"
			for _, t := range tables {
				os.Remove(t)
			}
			x.Classf("table-removed/tables=%d", len(tables))
			if os.Getenv("VERIF_DEBUG") != "" {
				fmt.Println("DEBUG tables removed:", len(tables), "listed probes:", len(listed))
			}
		}
		ld2 := realStore(capf2.live[0]).(*crlstore.LevelDbStore)
		// differential: wherever a raw Get of the key space fails with something else than not-found, the lookup must fail too
		rawErr := false
		it := ld2.Db.NewIterator(nil, nil)
		for it.Next() {
		}
		if it.Error() != nil {
			rawErr = true
		}
		it.Release()
		if rawErr {
			x.Class("raw-iteration-error")
		}
		if err := judge("after " + c.Fault + " and restart"); err != nil {
			return err
		}
	case "swap-failure":
		plan.FailUpdate = true
		os.WriteFile(crlFile, pki.CRL(2, c.Serials...), 0o600)
		uerr := repo.UpdateCRL(loc, chains)
		if uerr == nil {
			return fmt.Errorf("setup: injected swap failure did not surface from UpdateCRL")
		}
		if err := judge("after failed swap"); err != nil {
			if x.KnownHit(knownSwap, "a refresh whose final store swap fails drops the CRL: later lookups of serials the previous list revoked answer 'not revoked' (Repository.updateEntry/deleteEntrySync)") {
				x.Excluded(knownSwap)
				return nil
			}
			return err
		}
	case "swap-sabotage":
		// the refresh is downloaded, parsed and accepted; in the middle of the store swap the temporary directories
		// (the staged store, and from old-moved on also the moved-away previous store) vanish. Whatever is left, a
		// certificate the list in force revoked must not be answered 'not revoked'.
		var once sync.Once
		removed := 0
		verifhook.Set(func(name string) {
			if name == c.Site {
				once.Do(func() {
					m, _ := filepath.Glob(filepath.Join(wd, "crl_*_tmp"))
					for _, p := range m {
						if os.RemoveAll(p) == nil {
							removed++
						}
					}
				})
			}
		})
		os.WriteFile(crlFile, pki.CRL(2, c.Serials...), 0o600)
		_, _ = world.Call("UpdateCRL", 2*time.Minute, func() error { return repo.UpdateCRL(loc, chains) })
		verifhook.Set(nil)
		x.Classf("swap-sabotage/%s/removed-%d", c.Site, removed)
		if err := judge("after the store swap was sabotaged at " + c.Site); err != nil {
			return err
		}
	case "race-close":
		var wg sync.WaitGroup
		stop := make(chan struct{})
		errs := make(chan error, 8)
		for g := 0; g < 4; g++ {
			wg.Add(1)
			go func(g int) {
				defer wg.Done()
				for i := 0; ; i++ {
					select {
					case <-stop:
						return
					default:
					}
					l := listed[(g+i)%len(listed)]
					v := ask(l)
					if v.Kind != "revoked" && v.Kind != "error" {
						select {
						case errs <- fmt.Errorf("lookup of listed serial %s racing Close answered %v", l.SerialNumber.Text(16), v):
						default:
						}
						return
					}
				}
			}(g)
		}
		time.Sleep(time.Duration(1+c.N%3) * time.Millisecond)
		closeAll()
		time.Sleep(3 * time.Millisecond)
		close(stop)
		wg.Wait()
		select {
		case err := <-errs:
			return err
		default:
		}
		if err := judge("after racing close"); err != nil {
			return err
		}
	}
	x.Classf("extra-crls-%d", c.Extra)
	x.NonTrivial(fmt.Sprintf("%s|%s|%s|%s|%v|%d|%d", c.Fault, c.Backend, c.Level, c.Damage, c.Strict, c.N/4, c.Extra))
	return nil
}

func contains(l []string, s string) bool {
	for _, x := range l {
		if strings.EqualFold(gen.NormSerialHex(evenHex(x)), gen.NormSerialHex(evenHex(s))) {
			return true
		}
	}
	return false
}

func evenHex(h string) string {
	if len(h)%2 == 1 {
		return "0" + h
	}
	return h
}

// damageValue overwrites the value of the KeyIdx-th key (in sorted order) of the live store.
func damageValue(live crlstore.CRLStore, c Case) (int, error) {
	mut := func(old []byte) []byte {
		switch c.Damage {
		case "empty":
			return []byte{}
		case "truncate":
			if len(old) == 0 {
				return old
			}
			return old[:len(old)*int(c.Bytes[0])/256]
		case "random":
			return c.Bytes
		case "one-byte":
			return c.Bytes[:1]
		default: // flip
			n := append([]byte{}, old...)
			if len(n) > 0 {
				n[int(c.Bytes[0])%len(n)] ^= c.Bytes[len(c.Bytes)-1] | 1
			}
			return n
		}
	}
	switch s := live.(type) {
	case *crlstore.MapStore:
		var keys []string
		for k := range s.Map {
			keys = append(keys, k)
		}
		sort.Strings(keys)
		if len(keys) == 0 {
			return 0, fmt.Errorf("live map store is empty")
		}
		k := keys[c.KeyIdx%len(keys)]
		s.Map[k] = mut(s.Map[k])
		return len(keys), nil
	case *crlstore.LevelDbStore:
		var keys [][]byte
		it := s.Db.NewIterator(nil, nil)
		for it.Next() {
			keys = append(keys, append([]byte{}, it.Key()...))
		}
		it.Release()
		if len(keys) == 0 {
			return 0, fmt.Errorf("live leveldb store is empty")
		}
		k := keys[c.KeyIdx%len(keys)]
		old, err := s.Db.Get(k, nil)
		if err != nil && err != leveldb.ErrNotFound {
			return 0, err
		}
		return len(keys), s.Db.Put(k, mut(old), nil)
	}
	return 0, fmt.Errorf("unknown store type %T", live)
}

var spec = ev.Spec[Case]{
	ID:   "C09",
	Gen:  genCase,
	Run:  runCase,
	Rule: "rapid draws (backend, level in {repository, checker}, strictness, fault, list of 1..12 serials of 1..20 bytes; 50..400 for table corruption). A healthy CRL is loaded through the real path (faults also include, rarely and on disk only, a sabotaged REAL store swap: at a drawn step of LevelDbStore.Update every crl_*_tmp directory below work_dir vanishes) (file loader -> streaming reader -> staged store -> swap); baseline lookups must be truthful. Then one fault is injected: store/repository/checker closed; one record value (k-th key of the live store, through the exported Db/Map) emptied / truncated / replaced by random bytes / bit-flipped; bytes of a compacted LevelDB table file flipped followed by a restart; the final store swap of a refresh failing (wrapping factory); 4 reader goroutines racing Close. Oracle: a lookup of a LISTED serial answers revoked or error, never (not revoked, nil); an unlisted serial is never reported revoked; on disk after Close every lookup is an error. Non-trivial: every case that reached the fault (baseline truthful); distinct by (fault, backend, level, damage kind, strict, size bucket). The list is a configured crl_file or (a third of the cases) the list named in the probed certificates' own distribution point; strictness is drawn, so the lenient CDP mode is covered: a loaded list whose store fails is a storage failure, not an unobtainable list.",
	Assumptions: []string{
		"damage that makes leveldb silently drop a journal record cannot be observed by the plugin and is out of scope; table corruption is judged by the same never-(ok,nil)-for-listed rule",
	},
}

func TestMain(m *testing.M) {
	code := m.Run()
	world.Cleanup()
	os.Exit(code)
}

func TestProp(t *testing.T)   { ev.Check(t, spec) }
func TestReplay(t *testing.T) { ev.Replay(t, spec) }
