package c08

import (
	"crypto/x509"
	"fmt"
	"os"
	"sort"
	"strings"
	"sync"
	"sync/atomic"
	"testing"
	"time"

	"verifharness/ev"
	"verifharness/gen"
	"verifharness/world"

	"github.com/gr33nbl00d/caddy-revocation-validator/core/verifhook"
	"github.com/gr33nbl00d/caddy-revocation-validator/crl"
	"pgregory.net/rapid"
)

const knownSwap = "C08-failed-swap-drops-entry"

// universe of probe serials (hex); sets are subsets of it
var universe = []string{"05", "06", "7fffffffffffffff", "8000000000000001", "ff00ff00ff00ff00ff00ff00ff00ff00ff00ff00", "0100"}

// Step is one event of a refresh history.
type Step struct {
	Kind string `json:"kind"` // ok | fail
	Set  []int  `json:"set,omitempty"`
	Fail string `json:"fail,omitempty"`
	K    int    `json:"k,omitempty"`
	Junk []byte `json:"junk,omitempty"`
}

// Case is a history of refreshes on one distribution point.
type Case struct {
	Disk  bool   `json:"disk"`
	First []int  `json:"first"`
	Steps []Step `json:"steps"`
	Pad   int    `json:"pad"` // additional unrelated entries in every list (size class)
	// Form of every list of the history: "" v2 with cRLNumber | "nonumber" | "v1" (a source that never numbers its lists)
	Form string `json:"form,omitempty"`
}

var failKinds = []string{"http-error", "truncated", "garbage", "empty", "bad-signature", "signer-unknown", "create-staging", "write-staging", "write-staging", "swap-error", "unsupported-critical", "refused"}

func drawSet(t *rapid.T, label string) []int {
	var s []int
	for i := range universe {
		if rapid.Bool().Draw(t, fmt.Sprintf("%s_%d", label, i)) {
			s = append(s, i)
		}
	}
	return s
}

func genCase(t *rapid.T) Case {
	c := Case{Disk: rapid.Bool().Draw(t, "disk"), First: drawSet(t, "first")}
	c.Pad = rapid.SampledFrom([]int{0, 0, 3, 200}).Draw(t, "pad")
	c.Form = rapid.SampledFrom([]string{"", "", "nonumber", "v1"}).Draw(t, "form")
	n := rapid.IntRange(1, 7).Draw(t, "n")
	for i := 0; i < n; i++ {
		if rapid.IntRange(0, 2).Draw(t, fmt.Sprintf("ok%d", i)) == 0 {
			c.Steps = append(c.Steps, Step{Kind: "ok", Set: drawSet(t, fmt.Sprintf("set%d", i))})
			continue
		}
		st := Step{Kind: "fail", Set: drawSet(t, fmt.Sprintf("fset%d", i))}
		st.Fail = rapid.SampledFrom(failKinds).Draw(t, fmt.Sprintf("fk%d", i))
		if st.Fail == "refused" && (!ev.Thorough() || rapid.IntRange(0, 3).Draw(t, fmt.Sprintf("ref%d", i)) != 0) {
			st.Fail = "http-error" // refused costs 2 s of loader retries: rare and thorough only
		}
		st.K = rapid.IntRange(0, 1<<16).Draw(t, fmt.Sprintf("k%d", i))
		if st.Fail == "garbage" {
			st.Junk = rapid.SliceOfN(rapid.Byte(), 1, 200).Draw(t, fmt.Sprintf("junk%d", i))
		}
		c.Steps = append(c.Steps, st)
	}
	return c
}

func serialsOf(set []int, pad int) []string {
	var s []string
	for _, i := range set {
		s = append(s, universe[i])
	}
	for i := 0; i < pad; i++ {
		s = append(s, fmt.Sprintf("ee%06x", i))
	}
	return s
}

var caseSeq atomic.Int64

type env struct {
	origin  *world.Origin
	w       *world.CDPWorld
	sibling *world.SimplePKI
	other   *world.SimplePKI
	checker *crl.CRLRevocationChecker
	plan    *world.FaultPlan
	plain   map[string][][]*x509.Certificate
}

func setup(disk bool, strict bool, form ...string) (*env, error) {
	id := caseSeq.Add(1)
	e := &env{origin: world.NewOrigin()}
	name := fmt.Sprintf("c08-%d-%d", os.Getpid(), id)
	pki := world.NewSimplePKI(name, "p256a", "p256b")
	if len(form) > 0 {
		pki.Form = form[0]
	}
	e.w = world.NewCDPWorld(e.origin, pki, "/list.crl")
	e.sibling = world.NewSimplePKI(name, "p256c", "p256d") // same names, other keys
	e.other = world.NewSimplePKI(name+"-other", "p256e", "")
	ch, err := world.NewChecker(world.CRLOpts{WorkDir: world.NewDir("c08"), Disk: disk, Strict: strict})
	if err != nil {
		e.origin.Close()
		return nil, err
	}
	e.checker = ch
	e.plan = &world.FaultPlan{}
	repo := ch.VerifRepository()
	repo.Factory = world.FaultFactory{Inner: repo.Factory, Plan: e.plan}
	return e, nil
}

func (e *env) close() {
	e.checker.Cleanup()
	e.origin.Close()
}

func (e *env) judge(when string, inForce map[int]bool) error {
	if e.plain == nil {
		e.plain = map[string][][]*x509.Certificate{}
		// the very first handshake naming the CDP triggers the first load
		world.Ask(e.checker, e.w.Probe(universe[0]))
	}
	// 1. probes WITHOUT a CDP: answered from the loaded lists only, no first-use fetch can repair anything
	for i, s := range universe {
		ch, ok := e.plain[s]
		if !ok {
			ch = e.w.PKI.ChainFor(e.w.PKI.Leaf(s, nil, nil))
			e.plain[s] = ch
		}
		v := world.Ask(e.checker, ch)
		want := "ok"
		if inForce[i] {
			want = "revoked"
		}
		if v.Kind != want {
			return fmt.Errorf("%s: probe serial %s (certificate without CDP, answered from the loaded lists) answered %v, the list in force demands %s", when, s, v, want)
		}
	}
	// 2. probes naming the CDP, strict mode: an error would mean the list is no longer in force
	for i, s := range universe {
		v := world.Ask(e.checker, e.w.Probe(s))
		want := "ok"
		if inForce[i] {
			want = "revoked"
		}
		if v.Kind != want {
			var cur []string
			for j := range universe {
				if inForce[j] {
					cur = append(cur, universe[j])
				}
			}
			return fmt.Errorf("%s: probe serial %s answered %v, the list in force {%s} demands %s", when, s, v, strings.Join(cur, ","), want)
		}
	}
	return nil
}

func toMap(set []int) map[int]bool {
	m := map[int]bool{}
	for _, i := range set {
		m[i] = true
	}
	return m
}

func runCase(c Case, x *ev.Ctx) error {
	e, err := setup(c.Disk, true, c.Form)
	if err != nil {
		return fmt.Errorf("setup: %v", err)
	}
	defer e.close()
	e.w.Publish(serialsOf(c.First, c.Pad)...)
	inForce := toMap(c.First)
	if err := e.judge("after the first load", inForce); err != nil {
		return err
	}
	failsBetween, sawOKAfterFail, sawFail := 0, false, false
	var trace []string
	for i, st := range c.Steps {
		*e.plan = world.FaultPlan{}
		when := fmt.Sprintf("after step %d (%s %s)", i, st.Kind, st.Fail)
		good := e.w.PKI.CRL(e.w.Number+1, serialsOf(st.Set, c.Pad)...)
		if st.Kind == "ok" {
			e.w.Publish(serialsOf(st.Set, c.Pad)...)
			e.checker.VerifForceUpdate()
			inForce = toMap(st.Set)
			if sawFail {
				sawOKAfterFail = true
			}
			trace = append(trace, "ok")
		} else {
			switch st.Fail {
			case "http-error":
				e.origin.Status(e.w.Path, []int{500, 503, 404, 403}[st.K%4], "<html><body>Service unavailable</body></html>")
			case "truncated":
				e.origin.Serve(e.w.Path, good[:st.K%len(good)])
			case "garbage":
				e.origin.Serve(e.w.Path, st.Junk)
			case "empty":
				e.origin.Serve(e.w.Path, nil)
			case "bad-signature":
				e.origin.Serve(e.w.Path, e.sibling.CRL(e.w.Number+1, serialsOf(st.Set, c.Pad)...))
			case "signer-unknown":
				e.origin.Serve(e.w.Path, e.other.CRL(e.w.Number+1, serialsOf(st.Set, c.Pad)...))
			case "unsupported-critical":
				spec := gen.CRLSpec{Version: 1, IssuerDER: e.w.PKI.Issuer().Cert.RawSubject, ThisUpdate: 1700000100, NextUpdate: 1900000000, HasExts: true,
					Exts: []gen.Ext{gen.CRLNumberExt([]byte{9}), gen.UnknownExt(3, true)}, SigAlg: "sha256ecdsa"}
				for _, s := range serialsOf(st.Set, c.Pad) {
					spec.Entries = append(spec.Entries, gen.Entry{SerialHex: s, Date: 1690000000})
				}
				e.origin.Serve(e.w.Path, spec.MustBuild(e.w.PKI.Issuer().Key))
			case "refused":
				e.origin.Abort(e.w.Path)
			case "create-staging":
				e.origin.Serve(e.w.Path, good)
				e.plan.FailCreateTemp = 1
			case "write-staging":
				e.origin.Serve(e.w.Path, good)
				n := len(serialsOf(st.Set, c.Pad))
				methods := []string{"UpdateCRLLocations", "StartUpdateCrl", "UpdateExtendedMetaInfo", "UpdateSignatureCertificate"}
				if n > 0 {
					methods = append(methods, "InsertRevokedCert", "InsertRevokedCert", "InsertRevokedCert")
				}
				e.plan.FailMethod = methods[st.K%len(methods)]
				e.plan.FailAt = 1
				if e.plan.FailMethod == "InsertRevokedCert" {
					e.plan.FailAt = 1 + (st.K/7)%n
				}
			case "swap-error":
				if ev.IsKnown(knownSwap) {
					x.Excluded(knownSwap)
					continue
				}
				e.origin.Serve(e.w.Path, good)
				e.plan.FailUpdate = true
			}
			e.checker.VerifForceUpdate()
			if (st.Fail == "create-staging" || st.Fail == "write-staging" || st.Fail == "swap-error") && !e.plan.Fired {
				return fmt.Errorf("setup: injected fault %s/%s#%d did not fire", st.Fail, e.plan.FailMethod, e.plan.FailAt)
			}
			sawFail = true
			failsBetween++
			trace = append(trace, st.Fail)
			x.Classf("fail-%s", st.Fail)
		}
		if err := e.judge(when, inForce); err != nil {
			return err
		}
	}
	// residue: a failed refresh must not leave staging artefacts behind (see C20 for the full rule)
	if sawOKAfterFail {
		sort.Strings(trace)
		x.Classf("form=%s", c.Form)
		x.NonTrivial(fmt.Sprintf("%v|%v|%d|%s", c.Disk, trace, c.Pad, c.Form))
	}
	return nil
}

var spec = ev.Spec[Case]{
	ID:   "C08",
	Gen:  genCase,
	Run:  runCase,
	Rule: "histories: a CDP CRL is loaded through a real checker (origin -> URL loader -> reader -> staged store -> swap), then 1..7 refresh events are drawn: success(new set) or failure of kind {HTTP error body, truncated at byte k, garbage, empty body, bad signature (same-name sibling CA), signer unknown, unsupported critical extension, staging store creation error, k-th staging write error (locations / start / insert #i / ext-meta / signer), swap error (excluded while it is a listed known finding), connection refused (thorough, rare)}; each refresh is executed synchronously through the checker's own update path (VerifForceUpdate). Model: the set in force changes only on success, to exactly the new set. After every event all 6 probe serials (1..20 bytes) are looked up through the checker in strict mode and must answer exactly per model (never an error). Non-trivial: a failed refresh followed by a successful one; distinct by (backend, multiset of events, size class).",
	Assumptions: []string{
		"signature mode verify (the mode matrix is C16)",
		"a failing final swap (Update error) is recorded as known finding C08-failed-swap-drops-entry and excluded by construction from histories while listed",
	},
}

func TestMain(m *testing.M) {
	code := m.Run()
	world.Cleanup()
	os.Exit(code)
}

func TestProp(t *testing.T)   { ev.Check(t, spec) }
func TestReplay(t *testing.T) { ev.Replay(t, spec) }

// ---------------------------------------------------------------- known finding probe

// TestKnown runs the fixed probe of the recorded finding: a refresh whose final swap fails.
func TestKnown(t *testing.T) {
	s := spec
	s.Run = func(c Case, x *ev.Ctx) error {
		e, err := setup(c.Disk, false)
		if err != nil {
			return fmt.Errorf("setup: %v", err)
		}
		defer e.close()
		e.w.Publish("05", "06")
		if err := e.judge("after the first load", map[int]bool{0: true, 1: true}); err != nil {
			return err
		}
		e.w.Publish("05")
		e.plan.FailUpdate = true
		e.checker.VerifForceUpdate()
		err = e.judge("after a refresh whose final swap failed", map[int]bool{0: true, 1: true})
		if err != nil {
			if x.KnownHit(knownSwap, "a refresh whose final store swap fails does not keep the previous list in force: the entry is dropped and previously revoked serials are accepted (Repository.updateEntry/deleteEntrySync)") {
				return nil
			}
			return err
		}
		x.NonTrivial(fmt.Sprintf("known-probe|%v", c.Disk))
		return nil
	}
	ev.Enumerate(t, s, []Case{{Disk: false}, {Disk: true}}, false)
}

// ---------------------------------------------------------------- schedules

// ConcCase is one concurrent refresh scenario.
type ConcCase struct {
	Disk    bool  `json:"disk"`
	Readers int   `json:"readers"`
	Size    int   `json:"size"`   // entries common to both lists
	Delays  []int `json:"delays"` // microseconds slept at successive hook sites (cyclic)
	Rounds  int   `json:"rounds"` // refresh old->new->old ... this many times
}

func genConc(t *rapid.T) ConcCase {
	return ConcCase{
		Disk:    rapid.Bool().Draw(t, "disk"),
		Readers: rapid.IntRange(2, 8).Draw(t, "readers"),
		Size:    rapid.SampledFrom([]int{1, 50, 2000, 20000}).Draw(t, "size"),
		Delays:  rapid.SliceOfN(rapid.SampledFrom([]int{0, 0, 50, 300, 1500}), 1, 8).Draw(t, "delays"),
		Rounds:  rapid.IntRange(1, 3).Draw(t, "rounds"),
	}
}

type obs struct {
	reader     int
	probe      int // 0 old-only, 1 new-only, 2 common
	start, end int64
	kind       string
	gen        int // refresh generation at issue time (informational)
}

func runConc(c ConcCase, x *ev.Ctx) error {
	e, err := setup(c.Disk, true)
	if err != nil {
		return fmt.Errorf("setup: %v", err)
	}
	defer e.close()
	common := make([]string, 0, c.Size)
	for i := 0; i < c.Size; i++ {
		common = append(common, fmt.Sprintf("cc%06x", i))
	}
	oldOnly, newOnly, commonProbe := "05", "06", common[0]
	lists := [][]string{append([]string{oldOnly}, common...), append([]string{newOnly}, common...)}
	e.w.Publish(lists[0]...)
	probes := [][][]*x509.Certificate{e.w.Probe(oldOnly), e.w.Probe(newOnly), e.w.Probe(commonProbe)}
	if v := world.Ask(e.checker, probes[0]); v.Kind != "revoked" {
		return fmt.Errorf("setup: first load did not take effect: %v", v)
	}
	var clock atomic.Int64
	var hookN atomic.Int64
	verifhook.Set(func(name string) {
		if strings.HasPrefix(name, "repo.refresh") || strings.HasPrefix(name, "leveldb.update") || strings.HasPrefix(name, "map.update") {
			d := c.Delays[int(hookN.Add(1))%len(c.Delays)]
			if d > 0 {
				time.Sleep(time.Duration(d) * time.Microsecond)
			}
		}
	})
	defer verifhook.Set(nil)

	for round := 0; round < c.Rounds; round++ {
		from, to := round%2, (round+1)%2
		_ = from
		var mu sync.Mutex
		var all []obs
		stop := make(chan struct{})
		var wg sync.WaitGroup
		for r := 0; r < c.Readers; r++ {
			wg.Add(1)
			go func(r int) {
				defer wg.Done()
				var mine []obs
				for i := 0; ; i++ {
					select {
					case <-stop:
						mu.Lock()
						all = append(all, mine...)
						mu.Unlock()
						return
					default:
					}
					p := (i + r) % 3
					o := obs{reader: r, probe: p, start: clock.Add(1)}
					v := world.Ask(e.checker, probes[p])
					o.end = clock.Add(1)
					o.kind = v.Kind
					if v.Kind == "error" || v.Kind == "hang" || v.Kind == "panic" {
						o.kind = v.String()
					}
					mine = append(mine, o)
					if len(mine) > 200000 {
						mine = mine[len(mine)-1000:]
					}
				}
			}(r)
		}
		time.Sleep(500 * time.Microsecond)
		e.w.Publish(lists[to]...)
		e.checker.VerifForceUpdate()
		time.Sleep(500 * time.Microsecond)
		close(stop)
		wg.Wait()
		// judge. In this round list `to` replaces list `from`: probe index `from` (0 old-only /1 new-only) is revoked
		// before and ok after; probe index `to` is ok before and revoked after; probe 2 always revoked.
		sort.Slice(all, func(i, j int) bool { return all[i].start < all[j].start })
		sawOld, sawNew := false, false
		var firstNewEnd int64 = -1
		isNew := func(o obs) (bool, bool) { // (isNew, decisive)
			switch o.probe {
			case 2:
				return false, false
			default:
				revoked := o.kind == "revoked"
				if o.probe == from {
					return !revoked, true
				}
				return revoked, true
			}
		}
		for _, o := range all {
			if o.kind != "revoked" && o.kind != "ok" {
				return fmt.Errorf("round %d: lookup of probe %d by reader %d during a refresh failed: %s", round, o.probe, o.reader, o.kind)
			}
			if o.probe == 2 && o.kind != "revoked" {
				return fmt.Errorf("round %d: serial listed in BOTH lists was answered %q by reader %d during the refresh (empty or partial list observed)", round, o.kind, o.reader)
			}
			n, dec := isNew(o)
			if !dec {
				continue
			}
			if n {
				sawNew = true
				if firstNewEnd < 0 || o.end < firstNewEnd {
					firstNewEnd = o.end
				}
			} else {
				sawOld = true
			}
		}
		// once the new list has been observed (by a lookup that ended), no later-started lookup sees the old one
		for _, o := range all {
			n, dec := isNew(o)
			if dec && !n && firstNewEnd >= 0 && o.start > firstNewEnd {
				return fmt.Errorf("round %d: reader %d observed the OLD list (probe %d -> %s, started at t=%d) after the NEW list had already been observed (t=%d)", round, o.reader, o.probe, o.kind, o.start, firstNewEnd)
			}
		}
		// after the refresh returned everything is new
		for p := 0; p < 3; p++ {
			v := world.Ask(e.checker, probes[p])
			want := "revoked"
			if p == from {
				want = "ok"
			}
			if v.Kind != want {
				return fmt.Errorf("round %d: after the refresh returned probe %d answers %v, want %s", round, p, v, want)
			}
		}
		x.Classf("lookups-during-refresh-%s", bucket(len(all)))
		if sawOld && sawNew {
			x.Class("both-lists-observed")
			x.NonTrivial(fmt.Sprintf("conc|%v|%d|%d|%v|%d", c.Disk, c.Readers, c.Size, c.Delays, round))
		}
	}
	return nil
}

func bucket(n int) string {
	switch {
	case n < 10:
		return "<10"
	case n < 100:
		return "<100"
	case n < 1000:
		return "<1000"
	}
	return ">=1000"
}

var concSpec = ev.Spec[ConcCase]{
	ID:          "C08",
	Gen:         genConc,
	Run:         runConc,
	Inflight:    true,
	Rule:        "schedules: 2..8 reader goroutines loop over three probes (old-only, new-only, common serial) through the checker while one refresh old->new (1..3 rounds, lists of 1..20000 common entries) runs; the verif hook sites inside the refresh and the store swap sleep 0..1.5 ms (drawn) to widen the windows. Every lookup is stamped with logical start/end times. Invariants over the history: no lookup errors; the common serial is always revoked (no empty/partial list); once a completed lookup has seen the new list no later-started lookup sees the old one; after the refresh returns all probes are new. Non-trivial: both old and new observations occurred during the refresh.",
	Assumptions: []string{"explores schedules, does not cover them; the race detector run is C13"},
}

func TestConc(t *testing.T)       { ev.Check(t, concSpec) }
func TestReplayConc(t *testing.T) { ev.Replay(t, concSpec) }

// ---------------------------------------------------------------- harness-owned schedules (gates)

// GateCase is one scripted interleaving: a refresh run is stopped at a hook site while something else happens.
type GateCase struct {
	Disk bool   `json:"disk"`
	Site string `json:"site"` // hook site at which the first refresh run is held
}

func runGate(c GateCase, x *ev.Ctx) error {
	id := caseSeq.Add(1)
	o := world.NewOrigin()
	defer o.Close()
	name := fmt.Sprintf("c08g-%d-%d", os.Getpid(), id)
	pki := world.NewSimplePKI(name, "p256a", "p256b")
	wx := world.NewCDPWorld(o, pki, "/x.crl")
	wy := world.NewCDPWorld(o, pki, "/y.crl")
	ch, err := world.NewChecker(world.CRLOpts{WorkDir: world.NewDir("c08g"), Disk: c.Disk, Background: true})
	if err != nil {
		return fmt.Errorf("setup: %v", err)
	}
	defer ch.Cleanup()
	wx.Publish("05", "0a")
	wy.Publish("0a")
	// bring X into force (background mode: first handshake triggers the fetch; wait for it)
	world.Ask(ch, wx.Probe("05"))
	deadline := time.Now().Add(10 * time.Second)
	for world.Ask(ch, wx.Probe("05")).Kind != "revoked" {
		if time.Now().After(deadline) {
			return fmt.Errorf("setup: list X not in force after 10 s")
		}
		time.Sleep(time.Millisecond)
	}
	ch.VerifTick() // barrier: the asynchronous run started by the handshake is over
	var hits, done atomic.Int64
	gate := make(chan struct{})
	reached := make(chan struct{}, 1)
	verifhook.Set(func(site string) {
		if site == "checker.update.done" {
			done.Add(1)
		}
		if site == c.Site && hits.Add(1) == 1 {
			reached <- struct{}{}
			<-gate
		}
	})
	defer verifhook.Set(nil)
	// run 1: a refresh of everything known; it is held after it has fetched the OLD list
	go ch.VerifForceUpdate()
	select {
	case <-reached:
	case <-time.After(10 * time.Second):
		close(gate)
		return fmt.Errorf("setup: the refresh never reached hook site %s", c.Site)
	}
	// meanwhile the CA publishes a new list and a client with a not yet known CDP connects
	wx.Publish("06", "0a")
	world.Ask(ch, wy.Probe("0c")) // background mode: starts the asynchronous forced refresh (run 2)
	time.Sleep(60 * time.Millisecond)
	mid := world.Ask(ch, wx.Probe("06")) // has anybody brought the new list into force while run 1 is held?
	close(gate)
	deadline = time.Now().Add(20 * time.Second)
	for done.Load() < 2 {
		if time.Now().After(deadline) {
			return fmt.Errorf("the two refresh runs did not finish within 20 s (done=%d)", done.Load())
		}
		time.Sleep(time.Millisecond)
	}
	final06, final05 := world.Ask(ch, wx.Probe("06")), world.Ask(ch, wx.Probe("05"))
	x.Classf("gate=%s", c.Site)
	x.Classf("mid=%s", mid.Kind)
	if mid.Kind == "revoked" && final06.Kind != "revoked" {
		return fmt.Errorf("the new list of X was observed in force (serial 06 revoked) while an older refresh run was still in progress, and afterwards the OLD list is in force again (06 -> %v, 05 -> %v): old observed after new", final06, final05)
	}
	// run 2 started after the publication and ends last (refresh runs are serialised): the new list must be in force
	if final06.Kind != "revoked" || final05.Kind != "ok" {
		return fmt.Errorf("after both refresh runs finished (the second one started after the new list was published) the old list is in force: 06 -> %v, 05 -> %v", final06, final05)
	}
	x.NonTrivial(fmt.Sprintf("gate|%v|%s", c.Disk, c.Site))
	return nil
}

var gateSpec = ev.Spec[GateCase]{
	ID:  "C08",
	Run: runGate,
	Rule: "harness-owned schedules: in fetch_background mode a refresh run of everything known is held at a hook site (after the download / after parsing / before the swap) while the CA publishes a newer list and a client with a not yet known CDP connects (which starts a second, asynchronous refresh run); the held run is then released. Oracle: once the new list has been observed the old one is never observed again, and after both runs finished the list published before the later run started is in force. Enumerated over hook sites x back-ends.",
}

func TestGated(t *testing.T) {
	var cases []GateCase
	for _, disk := range []bool{false, true} {
		for _, site := range []string{"repo.refresh.downloaded", "repo.refresh.parsed", "repo.refresh.accepted"} {
			cases = append(cases, GateCase{Disk: disk, Site: site})
		}
	}
	ev.Enumerate(t, gateSpec, cases, false)
}

func TestReplayGate(t *testing.T) { ev.Replay(t, gateSpec) }
