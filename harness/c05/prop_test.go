package c05

import (
	"crypto/x509"
	"fmt"
	"os"
	"strings"
	"sync/atomic"
	"testing"
	"time"

	"verifharness/ev"
	"verifharness/gen"
	"verifharness/world"

	"golang.org/x/crypto/ocsp"
	"pgregory.net/rapid"
)

// Case is one (possibly forged) OCSP response.
type Case struct {
	Answer  world.OCSPAnswer `json:"answer"`
	Strict  bool             `json:"strict"`
	CAKey   string           `json:"ca_key"`
	Depth   int              `json:"depth"`
	LeafEKU bool             `json:"leaf_has_eku"` // false: the client certificate carries no EKU extension at all
	// Prelude: before the case, a certificate issued by the same-name sibling CA (another trusted CA that shares the
	// issuer's name, e.g. after a re-key) is checked successfully through its own responder
	Prelude bool `json:"prelude"`
	// LeafAKI: authorityKeyIdentifier form of the client certificate: "" (keyId) | absent | issuerserial | both |
	// uri-serial | dns-serial | emptynames-serial (issuer named by a GeneralName that is not a directoryName)
	LeafAKI string `json:"leaf_aki,omitempty"`
	// TrustExtra: the same-name sibling CA and the stranger are configured as trusted_responder_certs (certificates the
	// operator trusts for verifying responses of THEIR OWN certificates): that does not entitle them to answer for
	// certificates of another issuer
	TrustExtra bool `json:"trust_extra,omitempty"`
	// SameSerial: the client certificate has the same serial number as its issuer's certificate (which was issued by
	// the root: serial numbers are unique per issuer only)
	SameSerial bool `json:"same_serial,omitempty"`
	// byte-level mutation of the response (applied after building): -1 none
	MutPos  int `json:"mut_pos"`
	MutMask int `json:"mut_mask"`
}

var signers = []string{"issuer", "issuer", "delegated", "delegated-big", "mimic", "delegated-noeku", "delegated-clientauth", "delegated-anyeku", "client", "client-bare", "client-bare", "stranger-embedded", "stranger", "sibling"}
var kinds = []string{"good", "good", "revoked", "revoked", "unknown", "trylater", "unauthorized", "internal", "malformed", "sigrequired", "garbage", "html", "empty"}

func genCase(t *rapid.T) Case {
	c := Case{
		Strict:  rapid.Bool().Draw(t, "strict"),
		CAKey:   rapid.SampledFrom([]string{"p256a", "rsa2048a", "p384"}).Draw(t, "cakey"),
		Depth:   rapid.IntRange(1, 2).Draw(t, "depth"),
		LeafEKU: rapid.Bool().Draw(t, "leafeku"),
		Prelude: rapid.IntRange(0, 2).Draw(t, "prelude") == 0,
		MutPos:  -1,
	}
	c.LeafAKI = rapid.SampledFrom([]string{"", "", "", "", "", "absent", "issuerserial", "both", "uri-serial", "uri-serial", "dns-serial", "emptynames-serial"}).Draw(t, "leafaki")
	c.SameSerial = c.Depth == 2 && rapid.Bool().Draw(t, "sameserial")
	c.TrustExtra = rapid.IntRange(0, 2).Draw(t, "trustextra") == 0
	c.Answer.Kind = rapid.SampledFrom(kinds).Draw(t, "kind")
	c.Answer.Signer = rapid.SampledFrom(signers).Draw(t, "signer")
	c.Answer.Serial = rapid.SampledFrom([]string{"this", "this", "this", "other"}).Draw(t, "serial")
	c.Answer.NextUpdate = rapid.SampledFrom([]string{"", "", "future", "past"}).Draw(t, "next")
	c.Answer.RevokedAtFuture = rapid.IntRange(0, 3).Draw(t, "revfuture") == 0
	if rapid.IntRange(0, 3).Draw(t, "mutate") == 0 {
		c.MutPos = rapid.IntRange(0, 1<<16).Draw(t, "mutpos")
		c.MutMask = 1 << rapid.IntRange(0, 7).Draw(t, "mutbit")
		if rapid.IntRange(0, 3).Draw(t, "bytemask") == 0 {
			c.MutMask = rapid.IntRange(1, 255).Draw(t, "mask")
		}
		// mutations are applied to otherwise authentic responses
		c.Answer.Signer = rapid.SampledFrom([]string{"issuer", "delegated"}).Draw(t, "msigner")
		c.Answer.Serial = "this"
		c.Answer.Kind = rapid.SampledFrom([]string{"good", "revoked"}).Draw(t, "mkind")
	}
	return c
}

var seq atomic.Int64

// refAuthentic decides with the library's authenticated parse whether the bytes are an authentic answer for the leaf.
func refAuthentic(body []byte, leaf, issuer *x509.Certificate) (bool, int) {
	r, err := ocsp.ParseResponseForCert(body, leaf, issuer)
	if err != nil {
		return false, 0
	}
	if r.Certificate != nil && !r.Certificate.Equal(issuer) {
		okEKU := false
		for _, e := range r.Certificate.ExtKeyUsage {
			if e == x509.ExtKeyUsageOCSPSigning {
				okEKU = true
			}
		}
		if !okEKU {
			return false, 0
		}
	}
	if r.SerialNumber.Cmp(leaf.SerialNumber) != 0 {
		return false, 0
	}
	return true, r.Status
}

func runCase(c Case, x *ev.Ctx) error {
	id := seq.Add(1)
	name := fmt.Sprintf("c05-%d-%d", os.Getpid(), id)
	o := world.NewOrigin()
	defer o.Close()
	var root, ca *gen.Cert
	if c.Depth == 1 {
		ca = gen.Issue(gen.CertSpec{Key: c.CAKey, Subject: gen.CN(name + " ca"), SerialHex: "1001", IsCA: true}, nil)
		root = ca
	} else {
		root = gen.Issue(gen.CertSpec{Key: "p256b", Subject: gen.CN(name + " root"), SerialHex: "1000", IsCA: true}, nil)
		ca = gen.Issue(gen.CertSpec{Key: c.CAKey, Subject: gen.CN(name + " ca"), SerialHex: "1001", IsCA: true}, root)
	}
	leafSerial := "0badc0de"
	if c.SameSerial {
		leafSerial = "1001"
	}
	leaf := gen.Issue(gen.CertSpec{Key: "p256f", Subject: gen.CN(name + " client"), SerialHex: leafSerial, OCSP: []string{o.URL("/ocsp")}, NoEKU: !c.LeafEKU, AKI: c.LeafAKI}, ca)
	parties := world.NewOCSPParties(name, ca, leaf)
	chain := []*x509.Certificate{leaf.Cert, ca.Cert}
	if c.Depth == 2 {
		chain = append(chain, root.Cert)
	}
	chains := [][]*x509.Certificate{chain}
	resp := world.NewResponder(o, "/ocsp", parties, c.Answer)
	var served []byte
	resp.Mutate = func(b []byte) []byte {
		if c.MutPos >= 0 && len(b) > 0 {
			b = append([]byte{}, b...)
			b[c.MutPos%len(b)] ^= byte(c.MutMask)
		}
		served = b
		return b
	}
	opts := world.OCSPOpts{Strict: c.Strict, Cache: 30 * time.Second}
	if c.TrustExtra {
		opts.Trusted = []*x509.Certificate{parties.Sibling.Cert, parties.Stranger.Cert}
		x.Class("sibling-and-stranger-configured-as-trusted-responders")
	}
	chk := world.NewOCSPChecker(opts)
	if c.Prelude {
		sibLeaf := gen.Issue(gen.CertSpec{Key: "p256d", Subject: gen.CN(name + " sibling client"), SerialHex: "0badc0df", OCSP: []string{o.URL("/sib-ocsp")}, AKI: "absent"}, parties.Sibling)
		sp := world.NewOCSPParties(name+" sib", parties.Sibling, sibLeaf)
		world.NewResponder(o, "/sib-ocsp", sp, world.OCSPAnswer{Kind: "good"})
		if pv := world.Ask(chk, [][]*x509.Certificate{{sibLeaf.Cert, parties.Sibling.Cert}}); pv.Kind != "ok" {
			return fmt.Errorf("prelude: certificate of the same-name sibling CA with an authentic 'good' answer got %v", pv)
		}
	}
	v := world.Ask(chk, chains)
	if served == nil && strings.HasSuffix(c.LeafAKI, "-serial") {
		// no issuer can be identified from such an authority key identifier, so nobody was asked: that is "no answer"
		noAnswer := "ok"
		if c.Strict {
			noAnswer = "error"
		}
		if v.Kind != noAnswer {
			return fmt.Errorf("the responder was never asked (issuer not identifiable from the certificate's authority key identifier %s) but the verdict is %v, 'no answer' means %s", c.LeafAKI, v, noAnswer)
		}
		x.Class("responder-not-asked/issuer-not-identifiable-from-aki")
		return nil
	}
	if served == nil {
		return fmt.Errorf("setup: the responder was never asked (verdict %v)", v)
	}
	auth, status := refAuthentic(served, leaf.Cert, ca.Cert)
	if c.MutPos < 0 && auth != c.Answer.Authentic() {
		panic(fmt.Sprintf("harness: by construction authentic=%v, library reference says %v for %+v", c.Answer.Authentic(), auth, c.Answer))
	}
	x.Classf("signer=%s", c.Answer.Signer)
	x.Classf("kind=%s", c.Answer.Kind)
	if c.MutPos >= 0 {
		x.Classf("mutated/authentic=%v", auth)
	}
	desc := fmt.Sprintf("response {kind=%s signer=%s serial=%s nextUpdate=%q mutated=%v} strict=%v leafAKI=%q sameSerialAsIssuer=%v", c.Answer.Kind, c.Answer.Signer, c.Answer.Serial, c.Answer.NextUpdate, c.MutPos >= 0, c.Strict, c.LeafAKI, c.SameSerial)
	x.Classf("leaf-aki=%s", c.LeafAKI)
	if auth {
		want := "ok"
		if status == ocsp.Revoked {
			want = "revoked"
		}
		unmatchable := strings.HasSuffix(c.LeafAKI, "-serial")
		noAnswer := "ok"
		if c.Strict {
			noAnswer = "error"
		}
		if unmatchable && v.Kind == noAnswer && v.Kind != want {
			// the issuer cannot be identified from such an authority key identifier: finding no issuer (so that even
			// the authentic answer is no answer) is the conservative side of an only-if property
			x.Class("authentic-not-used/issuer-not-identifiable-from-aki")
			return nil
		}
		if v.Kind != want {
			return fmt.Errorf("authentic %s answered %v, want %s", desc, v, want)
		}
		x.Class("authentic")
		x.NonTrivial(fmt.Sprintf("auth|%+v|%v|%s|%d|%d", c.Answer, c.Strict, c.CAKey, c.Depth, c.MutPos%32))
		return nil
	}
	// not authentic: must be treated as no answer
	want := "ok"
	if c.Strict {
		want = "error"
	}
	if v.Kind != want {
		return fmt.Errorf("NON-authentic %s influenced the verdict: answered %v, 'no answer' means %s", desc, v, want)
	}
	// ... and must not have been cached: the responder now tells the truth (authentic: revoked)
	resp.Mutate = nil
	resp.Set(world.OCSPAnswer{Kind: "revoked"})
	v2 := world.Ask(chk, chains)
	if v2.Kind != "revoked" {
		return fmt.Errorf("after a NON-authentic %s the next handshake (responder now answers authentically 'revoked') got %v: the forged answer was cached or the responder was not asked again", desc, v2)
	}
	x.Class("non-authentic")
	if len(served) > 5 {
		x.NonTrivial(fmt.Sprintf("forged|%+v|%v|%s|%d|%d|%v|%v|%s|%v|%v", c.Answer, c.Strict, c.CAKey, c.Depth, c.MutPos%32, c.LeafEKU, c.Prelude, c.LeafAKI, c.SameSerial, c.TrustExtra))
	}
	return nil
}

var spec = ev.Spec[Case]{
	ID:          "C05",
	Gen:         genCase,
	Run:         runCase,
	Rule:        "rapid draws one OCSP response for the presented certificate: signer in {issuer, issuer-delegated responder with OCSPSigning EKU, issuer-signed certificate without any EKU, issuer-signed certificate with clientAuth EKU, issuer-signed certificate with clientAuth + anyExtendedKeyUsage, the client certificate itself (with / without an EKU extension; embedded in the response or not), self-signed stranger with or without embedded certificate, same-name sibling CA}, serial in {this, other}, status in {good, revoked, unknown}, response status in {successful, tryLater, unauthorized, internalError, malformedRequest, sigRequired}, garbage / HTML / empty bodies, nextUpdate in {absent, future, past}, the client certificate's authorityKeyIdentifier in {keyId, absent, issuer+serial, both, issuer named by a URI / dNSName / empty GeneralNames + serial}, optionally the client certificate carrying the same serial number as its issuer's certificate, optionally the sibling CA and the stranger configured as trusted responder certificates, and in a quarter of the cases a single-bit or byte mutation at a drawn position of an otherwise authentic response. Whether the served bytes are authentic is decided by the reference (library parse bound to the leaf and the issuer + OCSPSigning check on an embedded responder). Oracle: an authentic answer decides by its status; a non-authentic one is no answer: strict => the handshake errors, lenient => accepted even if it says revoked, and nothing is cached (the responder then answers authentically 'revoked' and the next handshake must be rejected, with a 30 s cache configured). Non-trivial: the bytes are a non-empty response; distinct by (answer shape, strict, key, depth, mutation bucket).",
	Assumptions: []string{"golang.org/x/crypto/ocsp's authenticated parse (ParseResponseForCert with an issuer) is the trusted reference for signature and serial matching"},
}

func TestMain(m *testing.M) {
	code := m.Run()
	world.Cleanup()
	os.Exit(code)
}

func TestProp(t *testing.T)   { ev.Check(t, spec) }
func TestReplay(t *testing.T) { ev.Replay(t, spec) }
