package c02

import (
	"crypto/x509"
	"fmt"
	"os"
	"strings"
	"sync/atomic"
	"testing"
	"time"

	"verifharness/ev"
	"verifharness/gen"
	"verifharness/world"

	"pgregory.net/rapid"
)

// Resp is one entry of the certificate's OCSP responder list.
type Resp struct {
	// Scheme: http | HTTP (upper-case scheme) | https-untrusted | refused | ldap | garbage-url
	Scheme string           `json:"scheme"`
	Answer world.OCSPAnswer `json:"answer"`
}

// Case is one responder list with behaviours.
type Case struct {
	Responders []Resp `json:"responders"`
	Strict     bool   `json:"strict"`
	Cache      bool   `json:"cache"` // default_cache_duration 30s (else 0)
	CAKey      string `json:"ca_key"`
	LeafKey    string `json:"leaf_key"`
	LeafAKI    string `json:"leaf_aki"` // "" (keyId) | absent | issuerserial | both
	Depth      int    `json:"depth"`
	Second     string `json:"second"` // none | off | flip | recover | other-instance
}

var answerKinds = []string{"good", "revoked", "unknown", "http500", "garbage", "html", "empty", "trylater", "unauthorized", "internal"}

func genCase(t *rapid.T) Case {
	c := Case{
		Strict:  rapid.Bool().Draw(t, "strict"),
		Cache:   rapid.Bool().Draw(t, "cache"),
		CAKey:   rapid.SampledFrom([]string{"p256a", "rsa2048a", "p384", "p256a"}).Draw(t, "cakey"),
		LeafKey: rapid.SampledFrom([]string{"p256f", "rsa2048d", "p256f"}).Draw(t, "leafkey"),
		LeafAKI: rapid.SampledFrom([]string{"", "", "absent", "issuerserial", "both"}).Draw(t, "aki"),
		Depth:   rapid.IntRange(1, 2).Draw(t, "depth"),
		Second:  rapid.SampledFrom([]string{"none", "off", "off", "flip", "recover", "recover", "other-instance"}).Draw(t, "second"),
	}
	n := rapid.IntRange(0, 4).Draw(t, "n")
	for i := 0; i < n; i++ {
		r := Resp{Scheme: rapid.SampledFrom([]string{"http", "http", "http", "http", "HTTP", "https-untrusted", "refused", "ldap", "garbage-url"}).Draw(t, fmt.Sprintf("scheme%d", i))}
		r.Answer.Kind = rapid.SampledFrom(answerKinds).Draw(t, fmt.Sprintf("kind%d", i))
		r.Answer.RevokedAtFuture = r.Answer.Kind == "revoked" && rapid.IntRange(0, 2).Draw(t, fmt.Sprintf("future%d", i)) == 0
		switch rapid.IntRange(0, 7).Draw(t, fmt.Sprintf("deleg%d", i)) {
		case 0:
			r.Answer.Signer = "delegated"
		case 1:
			r.Answer.Signer = "delegated-big" // authentic response of more than 3 KiB (RSA-3072 responder, long subject, embedded certificate)
		}
		c.Responders = append(c.Responders, r)
	}
	return c
}

var seq atomic.Int64

// decide is the reference model: walk the HTTP responders in order; the first authentic answer decides.
func decide(c Case, answers []world.OCSPAnswer) (verdict string, decidedBy int) {
	httpNamed := 0
	for i, r := range c.Responders {
		switch r.Scheme {
		case "ldap", "garbage-url":
			continue
		}
		httpNamed++
		if r.Scheme == "http" || r.Scheme == "HTTP" {
			if answers[i].Authentic() {
				if answers[i].Kind == "revoked" {
					return "revoked", i
				}
				return "ok", i
			}
		}
	}
	if c.Strict && httpNamed > 0 {
		return "error", -1
	}
	return "ok", -1
}

func runCase(c Case, x *ev.Ctx) error {
	id := seq.Add(1)
	name := fmt.Sprintf("c02-%d-%d", os.Getpid(), id)
	o := world.NewOrigin()
	defer o.Close()
	var root, ca *gen.Cert
	if c.Depth == 1 {
		ca = gen.Issue(gen.CertSpec{Key: c.CAKey, Subject: gen.CN(name + " ca"), SerialHex: "1001", IsCA: true}, nil)
		root = ca
	} else {
		root = gen.Issue(gen.CertSpec{Key: "p256b", Subject: gen.CN(name + " root"), SerialHex: "1000", IsCA: true}, nil)
		ca = gen.Issue(gen.CertSpec{Key: c.CAKey, Subject: gen.CN(name + " ca"), SerialHex: "1001", IsCA: true}, root)
	}
	var urls []string
	var closers []func()
	defer func() {
		for _, f := range closers {
			f()
		}
	}()
	for i, r := range c.Responders {
		switch r.Scheme {
		case "http":
			urls = append(urls, o.URL(fmt.Sprintf("/ocsp%d", i)))
		case "HTTP":
			urls = append(urls, strings.Replace(o.URL(fmt.Sprintf("/ocsp%d", i)), "http://", "HTTP://", 1))
		case "https-untrusted":
			u, cl := world.UntrustedTLSURL()
			urls = append(urls, u)
			closers = append(closers, cl)
		case "refused":
			urls = append(urls, world.RefusedURL("/ocsp"))
		case "ldap":
			urls = append(urls, "ldap://directory.invalid/ocsp")
		case "garbage-url":
			urls = append(urls, "ftp://files.invalid/ocsp")
		}
	}
	leaf := gen.Issue(gen.CertSpec{Key: c.LeafKey, Subject: gen.CN(name + " client"), SerialHex: "0c0ffee0", OCSP: urls, AKI: c.LeafAKI}, ca)
	parties := world.NewOCSPParties(name, ca, leaf)
	chain := []*x509.Certificate{leaf.Cert, ca.Cert}
	if c.Depth == 2 {
		chain = append(chain, root.Cert)
	}
	chains := [][]*x509.Certificate{chain}
	var resp []*world.Responder
	answers := make([]world.OCSPAnswer, len(c.Responders))
	for i, r := range c.Responders {
		answers[i] = r.Answer
		if r.Scheme == "http" || r.Scheme == "HTTP" {
			resp = append(resp, world.NewResponder(o, fmt.Sprintf("/ocsp%d", i), parties, r.Answer))
		} else {
			resp = append(resp, nil)
		}
	}
	cache := time.Duration(0)
	if c.Cache {
		cache = 30 * time.Second
	}
	chk := world.NewOCSPChecker(world.OCSPOpts{Strict: c.Strict, Cache: cache})
	want, by := decide(c, answers)
	v := world.Ask(chk, chains)
	if v.Kind != want {
		return fmt.Errorf("first handshake answered %v, the reference model says %s (decided by responder %d) for responders %s strict=%v", v, want, by, describe(c.Responders), c.Strict)
	}
	// responders before the deciding one that are HTTP must have been asked, later ones and non-HTTP never
	skipped := 0
	for i, r := range resp {
		if r == nil {
			continue
		}
		if by >= 0 && i > by && r.Requests() > 0 {
			return fmt.Errorf("responder %d was contacted although responder %d had already delivered an authentic answer", i, by)
		}
		if (by < 0 || i <= by) && r.Requests() == 0 {
			return fmt.Errorf("HTTP responder %d was never contacted although no earlier responder delivered an authentic answer", i)
		}
		if by >= 0 && i < by {
			skipped++
		}
	}
	x.Classf("first=%s", want)
	if by >= 0 {
		x.Classf("decided-by-position-%d", by)
	}
	second := ""
	switch c.Second {
	case "off":
		for i, r := range resp {
			if r != nil {
				r.Set(world.OCSPAnswer{Kind: "http500"})
				answers[i] = world.OCSPAnswer{Kind: "http500"}
			}
		}
		want2, _ := decide(c, answers)
		v2 := world.Ask(chk, chains)
		if c.Cache && by >= 0 {
			// the authentic first answer is still valid in the cache (30 s): it keeps deciding
			if v2.Kind != want {
				return fmt.Errorf("second handshake (responders down, authentic answer cached 30 s) answered %v, want the cached verdict %s", v2, want)
			}
			second = "served-from-cache"
		} else {
			if v2.Kind != want2 {
				return fmt.Errorf("second handshake (responders down, nothing cacheable: cache=%v first decided by %d) answered %v, want %s", c.Cache, by, v2, want2)
			}
			second = "nothing-cached"
		}
	case "flip":
		if by >= 0 && !c.Cache {
			a := answers[by]
			if a.Kind == "revoked" {
				a.Kind = "good"
			} else {
				a.Kind = "revoked"
			}
			answers[by] = a
			resp[by].Set(a)
			want2, _ := decide(c, answers)
			v2 := world.Ask(chk, chains)
			if v2.Kind != want2 {
				return fmt.Errorf("after the deciding responder flipped to %s (no caching configured, no nextUpdate) the handshake answered %v, want %s", a.Kind, v2, want2)
			}
			second = "flip-followed"
		}
	case "recover":
		// nobody delivered an authentic answer in the first handshake (which is not an answer and must not be
		// remembered as one); now the last HTTP responder is back and says revoked
		last := -1
		for i, r := range resp {
			if r != nil {
				last = i
			}
		}
		if by < 0 && last >= 0 {
			a := world.OCSPAnswer{Kind: "revoked"}
			answers[last] = a
			resp[last].Set(a)
			want2, _ := decide(c, answers)
			v2 := world.Ask(chk, chains)
			if v2.Kind != want2 {
				return fmt.Errorf("first handshake had no authentic answer (%s, strict=%v, cache=%v); then responder %d recovered and answers revoked: the second handshake answered %v, want %s", want, c.Strict, c.Cache, last, v2, want2)
			}
			second = "recovered-responder-followed"
		}
	case "other-instance":
		// the same certificate is presented to ANOTHER validator instance of the process with the opposite
		// strictness while the responders behave as before: its verdict follows its own configuration
		if by < 0 {
			other := world.NewOCSPChecker(world.OCSPOpts{Strict: !c.Strict, Cache: cache})
			c2 := c
			c2.Strict = !c.Strict
			want2, _ := decide(c2, answers)
			v2 := world.Ask(other, chains)
			if v2.Kind != want2 {
				return fmt.Errorf("no responder delivers an authentic answer; the instance with strict=%v answered %s, then an instance with strict=%v answered %v, want %s", c.Strict, want, c2.Strict, v2, want2)
			}
			second = "other-instance-own-strictness"
		}
	}
	if second != "" {
		x.Class(second)
	}
	nonAnswerBefore := skipped > 0
	allUnavailable := by < 0 && len(c.Responders) > 0
	if nonAnswerBefore || (c.Strict && allUnavailable) || second != "" {
		x.NonTrivial(fmt.Sprintf("%s|%v|%v|%s|%s|%s|%s|%d", describe(c.Responders), c.Strict, c.Cache, c.Second, c.CAKey, c.LeafKey, c.LeafAKI, c.Depth))
	}
	return nil
}

func describe(rs []Resp) string {
	var p []string
	for _, r := range rs {
		s := r.Scheme + ":" + r.Answer.Kind
		if r.Answer.Signer != "" {
			s += "/" + r.Answer.Signer
		}
		p = append(p, s)
	}
	return "[" + strings.Join(p, " ") + "]"
}

var spec = ev.Spec[Case]{
	ID:          "C02",
	Gen:         genCase,
	Run:         runCase,
	Rule:        "rapid draws a responder list of 0..4 URLs over schemes {http, HTTP (upper case), https with an untrusted certificate, connection refused, ldap, ftp}, a behaviour per responder {good, revoked (revocationTime in the past or a few hours ahead of the local clock), unknown (issuer-signed or by an issuer-delegated responder), HTTP 500 + body, garbage, HTML page, empty body, OCSP error status tryLater / unauthorized / internalError}, strict on/off, cache 0 / 30 s, CA and leaf key types, leaf AKI form (keyId, absent, issuer+serial, both), chain depth, and a second handshake {none, all responders down, deciding responder flipped, a responder recovering with 'revoked' after a first handshake without any authentic answer, the same certificate on another instance with the opposite strictness}. Reference model: walk the HTTP responders in order, the first authentic answer decides (revoked => reject), no authentic answer => reject iff strict and an HTTP responder is named. Oracle: verdict equality; HTTP responders before the deciding one were contacted, later ones and non-HTTP ones never; with the authentic answer cached the second handshake keeps the verdict although every responder is down; with nothing cacheable it follows the responders; a handshake without an authentic answer leaves nothing behind (the recovered responder decides, the other instance applies its own strictness). Non-trivial: a non-answer before the deciding responder, or strict with all unavailable, or a second handshake; distinct by the full case shape.",
	Assumptions: []string{"only unambiguous answers are used here (issuer or properly delegated signer, right serial, or plainly no answer); forged responses are C05"},
}

func TestMain(m *testing.M) {
	code := m.Run()
	world.Cleanup()
	os.Exit(code)
}

func TestProp(t *testing.T)   { ev.Check(t, spec) }
func TestReplay(t *testing.T) { ev.Replay(t, spec) }
