package c07

import (
	"os"
	"path/filepath"
	"testing"

	"verifharness/ev"
	"verifharness/gen"

	"github.com/gr33nbl00d/caddy-revocation-validator/crl/crlreader"
)

// FuzzReadCRL is the coverage-guided target of the thorough tier. The oracle is inside the target (no panic,
// bounded allocation, termination), the same `guarded` wrapper the rapid phase uses.
func FuzzReadCRL(f *testing.F) {
	// corpus: small valid lists in every encoding plus hostile constants; an empty corpus entry as well
	f.Add([]byte{})
	for _, v1 := range []bool{false, true} {
		s := gen.CRLSpec{Version: 1, SigAlg: "sha256ecdsa", IssuerDER: gen.CN("fuzz ca").DER(), ThisUpdate: 1700000000, NextUpdate: 1800000000,
			HasExts: true, Exts: []gen.Ext{gen.CRLNumberExt([]byte{1}), {OID: gen.OIDAKI, Value: gen.TLV(0x30, gen.TLV(0x80, []byte{1, 2, 3}))}},
			Entries: []gen.Entry{{SerialHex: "05", Date: 1690000000}, {SerialHex: "ff00ff00ff", Date: 1690000001, GenTime: true, Exts: []gen.Ext{gen.ReasonExt(1)}}}}
		if v1 {
			s.Version, s.HasExts, s.Exts = -1, false, nil
			s.Entries[1].Exts = nil
		}
		der := s.MustBuild(gen.K("p256a"))
		f.Add(der)
		f.Add(gen.PEMEncode(der, false))
		f.Add(gen.PEMEncode(der, true))
		for _, hl := range gen.HostileLengths {
			roots := gen.ParseTree(der)
			tbs := roots[0].Children[0]
			for _, idx := range []int{len(tbs.Children) - 1, 2, 3} {
				if idx < len(tbs.Children) {
					n := tbs.Children[idx]
					old := n.RawHeader
					n.RawHeader = append([]byte{n.Tag}, hl...)
					f.Add(gen.Serialize(roots))
					n.RawHeader = old
				}
			}
			sig := roots[0].Children[2]
			sig.RawHeader = append([]byte{sig.Tag}, hl...)
			f.Add(gen.Serialize(roots))
		}
	}
	dir := f.TempDir()
	f.Fuzz(func(t *testing.T, data []byte) {
		if len(data) > 1<<20 {
			return
		}
		p := filepath.Join(dir, "in.crl")
		if err := os.WriteFile(p, data, 0o600); err != nil {
			t.Skip()
		}
		d := &discard{}
		if err := guarded(len(data), func() {
			crlreader.StreamingCRLFileReader{}.ReadCRL(d, p)
		}); err != nil {
			t.Fatalf("ReadCRL on %d fuzzed bytes: %v", len(data), err)
		}
	})
}

// FuzzAKI feeds attacker-controlled authorityKeyIdentifier values (as found in a fetched CRL) to the chain matcher.
func FuzzAKI(f *testing.F) {
	pkiOnce()
	for _, form := range []string{"keyid", "issuerserial", "both"} {
		ext, _ := gen.AKIExtension(form, chainPKI.inter.Cert)
		f.Add(ext.Value, 1)
		f.Add(ext.Value, 3)
	}
	f.Add([]byte{0x30, 0x00}, 1)
	f.Add([]byte{}, 0)
	f.Fuzz(func(t *testing.T, data []byte, alg int) {
		if len(data) > 1<<16 {
			return
		}
		if err := runCase(Case{Target: "chain", Kind: "fuzz", Data: data, Alg: alg % 5}, ev.NewCtx()); err != nil {
			t.Fatal(err)
		}
	})
}
