package c07

import (
	"bufio"
	"bytes"
	"crypto/x509"
	"crypto/x509/pkix"
	"encoding/asn1"
	"encoding/base64"
	"fmt"
	"os"
	"path/filepath"
	"reflect"
	"runtime"
	"runtime/debug"
	"strconv"
	"strings"
	"sync"
	"sync/atomic"
	"testing"
	"time"

	"verifharness/ev"
	"verifharness/gen"

	"github.com/gr33nbl00d/caddy-revocation-validator/core"
	"github.com/gr33nbl00d/caddy-revocation-validator/core/asn1parser"
	"github.com/gr33nbl00d/caddy-revocation-validator/core/pemreader"
	"github.com/gr33nbl00d/caddy-revocation-validator/crl/crlreader"
	"github.com/gr33nbl00d/caddy-revocation-validator/crl/crlstore"
	"go.uber.org/zap"
	"pgregory.net/rapid"
)

// Case is one hostile input for one parser entry point.
type Case struct {
	Target string `json:"target"` // crl | chain | rdn | pem
	// IssuerDER (target chain): a CRL issuer name to look candidates up by (no authority key identifier in that case)
	IssuerDER []byte `json:"issuer_der,omitempty"`
	Kind      string `json:"kind"`
	Data      []byte `json:"data"`
	Alg       int    `json:"alg,omitempty"` // chain target: public key algorithm asked for
	Note      string `json:"note,omitempty"`
}

type discard struct{ started bool }

func (d *discard) StartUpdateCrl(*crlreader.CRLMetaInfo) error { d.started = true; return nil }
func (d *discard) InsertRevokedCertificate(*crlreader.CRLEntry) error {
	return nil
}
func (d *discard) UpdateExtendedMetaInfo(*crlreader.ExtendedCRLMetaInfo) error  { return nil }
func (d *discard) UpdateSignatureCertificate(*core.CertificateChainEntry) error { return nil }

var tmpDir string

func TestMain(m *testing.M) {
	d, err := os.MkdirTemp("", "verif-c07-")
	if err != nil {
		panic(err)
	}
	tmpDir = d
	// A parser that recurses once per input line/element must not need an
	// unbounded stack: cap it well above anything a well-formed CRL needs so that
	// runaway recursion shows up on megabyte-sized inputs instead of gigabytes.
	debug.SetMaxStack(16 << 20)
	code := m.Run()
	os.RemoveAll(d)
	os.Exit(code)
}

// ---------------------------------------------------------------- generators

func baseSpec(t *rapid.T) (gen.CRLSpec, string) {
	s := gen.CRLSpec{Version: 1, ThisUpdate: 1700000000, NextUpdate: 1800000000}
	key := rapid.SampledFrom([]string{"p256a", "p256a", "p384", "rsa2048a"}).Draw(t, "bkey")
	s.SigAlg = rapid.SampledFrom(gen.CompatibleAlgs(gen.K(key))).Draw(t, "balg")
	if rapid.IntRange(0, 3).Draw(t, "bv1") == 0 {
		s.Version = -1
	}
	s.IssuerDER = gen.DrawName(t, "biss", 0).DER()
	n := rapid.IntRange(0, 6).Draw(t, "bn")
	for i := 0; i < n; i++ {
		s.Entries = append(s.Entries, gen.DrawEntry(t, fmt.Sprintf("be%d", i), s.Version >= 0))
	}
	if s.Version >= 0 && len(s.Entries) > 0 && rapid.IntRange(0, 3).Draw(t, "bci") == 0 {
		// certificateIssuer entry extension (indirect CRLs) with GeneralNames of every shape
		shapes := [][]byte{
			gen.TLV(0x30, gen.TLV(0xa4, gen.CN("indirect issuer").DER())),
			gen.TLV(0x30, gen.TLV(0x86, []byte("http://ca.example.org/"))),
			gen.TLV(0x30, gen.TLV(0x82, []byte("ca.example.org"))),
			gen.TLV(0x30),
			gen.TLV(0x30, gen.TLV(0x86, []byte("u")), gen.TLV(0xa4, gen.CN("second").DER())),
			{0x05, 0x00},
		}
		i := rapid.IntRange(0, len(s.Entries)-1).Draw(t, "bcii")
		s.Entries[i].Exts = append(s.Entries[i].Exts, gen.Ext{OID: "2.5.29.29", Critical: rapid.Bool().Draw(t, "bcic"), Value: rapid.SampledFrom(shapes).Draw(t, "bcis")})
	}
	if len(s.Entries) > 0 && rapid.IntRange(0, 5).Draw(t, "blarge") == 0 {
		// production-size list: hostile fields are then followed by well over 64 KiB of real data
		big := rapid.IntRange(2500, 6000).Draw(t, "bbig")
		tpl := s.Entries
		for i := 0; i < big; i++ {
			e := tpl[i%len(tpl)]
			e.SerialHex = fmt.Sprintf("%s%06x", e.SerialHex[:min(len(e.SerialHex), 34)], i)
			s.Entries = append(s.Entries, e)
		}
	}
	if s.Version >= 0 && rapid.IntRange(0, 3).Draw(t, "bx") != 0 {
		s.HasExts = true
		s.Exts = []gen.Ext{gen.CRLNumberExt([]byte{1, 2}), {OID: gen.OIDAKI, Value: gen.TLV(0x30, gen.TLV(0x80, []byte{1, 2, 3, 4}))}}
	}
	if rapid.Bool().Draw(t, "bnonext") {
		s.NextUpdate = 0
	}
	return s, key
}

func mutateTree(t *rapid.T, der []byte) ([]byte, string) {
	roots := gen.ParseTree(der)
	var notes []string
	muts := rapid.IntRange(1, 2).Draw(t, "nmut")
	for m := 0; m < muts; m++ {
		refs := gen.Flatten(roots)
		if len(refs) > 400 {
			// large list: mutate the head (tbs fields, first entries) or the tail (extensions, signature)
			refs = append(append([]gen.NodeRef{}, refs[:40]...), refs[len(refs)-25:]...)
		}
		r := refs[rapid.IntRange(0, len(refs)-1).Draw(t, fmt.Sprintf("node%d", m))]
		n := r.Node
		kind := rapid.SampledFrom([]string{"hostile-len", "hostile-len", "hostile-len", "tag", "len-delta", "drop-content", "bytes", "nest", "delete", "dup", "empty", "retag-edge", "retag-edge"}).Draw(t, fmt.Sprintf("mk%d", m))
		notes = append(notes, fmt.Sprintf("%s@depth%d/tag%02x", kind, r.Depth, n.Tag))
		switch kind {
		case "hostile-len":
			hl := rapid.SampledFrom(gen.HostileLengths).Draw(t, fmt.Sprintf("hl%d", m))
			n.RawHeader = append([]byte{n.Tag}, hl...)
		case "retag-edge":
			// a universal tag the parser knows, combined with edge-case content (empty, one byte, lone terminator)
			n.Tag = rapid.SampledFrom([]byte{0x02, 0x03, 0x04, 0x05, 0x06, 0x0a, 0x17, 0x18, 0x30, 0x31, 0xa0, 0x80}).Draw(t, fmt.Sprintf("rt%d", m))
			n.Children = nil
			n.Content = rapid.SampledFrom([][]byte{{}, {0x00}, {'Z'}, {0xff}, {0x80}, []byte("9"), []byte("99999999999999Z")}).Draw(t, fmt.Sprintf("rc%d", m))
		case "tag":
			n.Tag = rapid.Byte().Draw(t, fmt.Sprintf("tag%d", m))
		case "len-delta":
			body := n.Bytes()
			clen := len(body) - hdrLen(body)
			d := rapid.SampledFrom([]int{-2, -1, 1, 2, 100, 5000}).Draw(t, fmt.Sprintf("ld%d", m))
			nl := clen + d
			if nl < 0 {
				nl = 0
			}
			n.RawHeader = append([]byte{n.Tag}, gen.DERLen(nl)...)
		case "drop-content":
			body := n.Bytes()
			h := hdrLen(body)
			keep := rapid.IntRange(0, len(body)-h).Draw(t, fmt.Sprintf("keep%d", m))
			n.Raw = body[:h+keep]
		case "bytes":
			body := append([]byte{}, n.Bytes()...)
			k := rapid.IntRange(1, 3).Draw(t, fmt.Sprintf("nb%d", m))
			for i := 0; i < k && len(body) > 0; i++ {
				body[rapid.IntRange(0, len(body)-1).Draw(t, fmt.Sprintf("bp%d_%d", m, i))] = rapid.Byte().Draw(t, fmt.Sprintf("bv%d_%d", m, i))
			}
			n.Raw = body
		case "nest":
			depth := rapid.SampledFrom([]int{1, 5, 50, 2000}).Draw(t, fmt.Sprintf("nd%d", m))
			b := n.Bytes()
			for i := 0; i < depth; i++ {
				b = gen.TLV(0x30, b)
			}
			n.Raw = b
		case "delete":
			n.Raw = []byte{}
		case "dup":
			b := n.Bytes()
			n.Raw = append(append([]byte{}, b...), b...)
		case "empty":
			n.Children = nil
			n.Content = []byte{}
		}
	}
	return gen.Serialize(roots), strings.Join(notes, ",")
}

func hdrLen(b []byte) int {
	if len(b) < 2 {
		return len(b)
	}
	if b[1]&0x80 == 0 {
		return 2
	}
	return min(len(b), 2+int(b[1]&0x7f))
}

func genCase(t *rapid.T) Case {
	target := rapid.SampledFrom([]string{"crl", "crl", "crl", "crl", "crl", "crl", "chain", "rdn", "pem"}).Draw(t, "target")
	switch target {
	case "crl":
		return genCRLCase(t)
	case "chain":
		return genChainCase(t)
	case "rdn":
		c := Case{Target: "rdn"}
		switch rapid.IntRange(0, 2).Draw(t, "rk") {
		case 0:
			c.Kind = "random"
			c.Data = rapid.SliceOfN(rapid.Byte(), 0, 64).Draw(t, "rb")
		case 1:
			c.Kind = "mutate"
			c.Data, c.Note = mutateTree(t, gen.DrawName(t, "rn", rapid.SampledFrom([]int{0, 0, 200}).Draw(t, "rpad")).DER())
		default:
			c.Kind = "valid"
			c.Data = gen.DrawName(t, "rn", 0).DER()
		}
		return c
	default:
		return genPEMCase(t)
	}
}

func genCRLCase(t *rapid.T) Case {
	c := Case{Target: "crl"}
	c.Kind = rapid.SampledFrom([]string{"random", "truncate", "mutate", "mutate", "mutate", "mutate", "pem-mutate", "empty", "field-len", "alg-swap", "time-edge"}).Draw(t, "kind")
	switch c.Kind {
	case "random":
		c.Data = rapid.SliceOfN(rapid.Byte(), 0, 400).Draw(t, "rb")
		if rapid.Bool().Draw(t, "seqprefix") {
			c.Data = append([]byte{0x30, 0x82, 0x01, 0x00, 0x30, 0x10}, c.Data...)
		}
		return c
	case "empty":
		c.Data = rapid.SampledFrom([][]byte{{}, {0x30}, {0x30, 0x00}, {0x30, 0x80}, {'\n'}, []byte("-----BEGIN X509 CRL-----\n"), []byte("-----BEGIN X509 CRL-----\n-----END X509 CRL-----\n")}).Draw(t, "empty")
		return c
	}
	spec, key := baseSpec(t)
	der := spec.MustBuild(gen.K(key))
	switch c.Kind {
	case "truncate":
		b := der
		if rapid.Bool().Draw(t, "tpem") {
			b = gen.PEMEncode(der, rapid.Bool().Draw(t, "tcrlf"))
		}
		c.Data = b[:rapid.IntRange(0, len(b)).Draw(t, "cut")]
	case "mutate":
		c.Data, c.Note = mutateTree(t, der)
		if rapid.IntRange(0, 4).Draw(t, "aspem") == 0 {
			c.Data = gen.PEMEncode(c.Data, false)
			c.Note += ",pem"
		}
	case "field-len":
		// a named field of the tbs gets every hostile length while all enclosing
		// headers stay consistent, so the main pass reaches it
		roots := gen.ParseTree(der)
		tbs := roots[0].Children[0]
		var fields []*gen.Node
		for _, ch := range tbs.Children {
			fields = append(fields, ch)
		}
		fields = append(fields, roots[0].Children[1], roots[0].Children[2]) // outer alg, signature
		f := fields[rapid.IntRange(0, len(fields)-1).Draw(t, "field")]
		hl := rapid.SampledFrom(gen.HostileLengths).Draw(t, "fhl")
		f.RawHeader = append([]byte{f.Tag}, hl...)
		c.Note = fmt.Sprintf("field tag %02x len % x", f.Tag, hl)
		c.Data = gen.Serialize(roots)
		if rapid.IntRange(0, 4).Draw(t, "aspem") == 0 {
			c.Data = gen.PEMEncode(c.Data, false)
			c.Note += ",pem"
		}
	case "pem-mutate":
		c.Data, c.Note = mutatePEM(t, der)
	case "alg-swap":
		// an otherwise intact CRL whose outer (and/or inner) algorithm is one the reader does not implement
		roots := gen.ParseTree(der)
		alg := rapid.SampledFrom([]string{"pss256", "ed25519", "unknown-oid", "empty-seq", "oid-only-garbage"}).Draw(t, "swapalg")
		var raw []byte
		switch alg {
		case "pss256", "ed25519":
			raw = gen.SigAlgs[alg].AlgIDDER()
		case "unknown-oid":
			raw = gen.TLV(0x30, gen.DEROID("1.2.840.113549.1.1.99"), gen.DERNull)
		case "empty-seq":
			raw = gen.TLV(0x30)
		default:
			raw = gen.TLV(0x30, gen.TLV(0x06, []byte{0xff, 0xff, 0xff}))
		}
		roots[0].Children[1].Raw = raw
		if rapid.Bool().Draw(t, "swapinner") {
			tbs := roots[0].Children[0]
			idx := 0
			if spec.Version >= 0 {
				idx = 1
			}
			tbs.Children[idx].Raw = raw
		}
		c.Note = "alg-swap " + alg
		c.Data = gen.Serialize(roots)
		if rapid.IntRange(0, 3).Draw(t, "aspem") == 0 {
			c.Data = gen.PEMEncode(c.Data, false)
		}
	case "time-edge":
		// thisUpdate / nextUpdate with either time tag and edge-case content
		roots := gen.ParseTree(der)
		tbs := roots[0].Children[0]
		for _, ch := range tbs.Children {
			if (ch.Tag == 0x17 || ch.Tag == 0x18) && rapid.Bool().Draw(t, "te_pick") {
				ch.Tag = rapid.SampledFrom([]byte{0x17, 0x18}).Draw(t, "te_tag")
				ch.Content = rapid.SampledFrom([][]byte{{}, {'Z'}, []byte("Z0700"), []byte("991231235959"), []byte("20500101000000Z"), []byte("2050010100000"), []byte("5001010000Z"), []byte("500101000000+0100"), {0x00}, []byte("99999999999999999999Z")}).Draw(t, "te_val")
				c.Note += fmt.Sprintf("time %02x %q;", ch.Tag, ch.Content)
			}
		}
		c.Data = gen.Serialize(roots)
	}
	return c
}

func mutatePEM(t *rapid.T, der []byte) ([]byte, string) {
	p := gen.PEMEncode(der, false)
	kind := rapid.SampledFrom([]string{"no-final-newline", "cr-only", "long-line", "no-end", "no-begin", "garbage-line", "armour-flood", "blank-lines", "one-line", "lowercase-armour", "wrong-padding", "crlf-mixed", "dash-line", "dash-line"}).Draw(t, "pk")
	switch kind {
	case "no-final-newline":
		p = bytes.TrimRight(p, "\n")
	case "cr-only":
		p = bytes.ReplaceAll(p, []byte("\n"), []byte("\r"))
	case "long-line":
		lines := bytes.Split(p, []byte("\n"))
		if len(lines) > 3 {
			lines[1] = append(lines[1], lines[2]...)
			lines = append(lines[:2], lines[3:]...)
		}
		p = bytes.Join(lines, []byte("\n"))
	case "no-end":
		p = p[:bytes.Index(p, []byte("-----END"))]
	case "no-begin":
		p = append([]byte("-----BEGIN X509 CRL-----\n"), p[bytes.Index(p, []byte("\n"))+1:]...)
		p = p[25:]
		p = append([]byte("-----END X509 CRL-----\n"), p...)
	case "garbage-line":
		lines := bytes.Split(p, []byte("\n"))
		i := rapid.IntRange(0, len(lines)-1).Draw(t, "gl")
		lines[i] = rapid.SliceOfN(rapid.Byte(), 0, 80).Draw(t, "gb")
		p = bytes.Join(lines, []byte("\n"))
	case "armour-flood":
		n := rapid.SampledFrom([]int{10, 1000, 20000, 250000}).Draw(t, "flood")
		p = append(bytes.Repeat([]byte("-----A-----\n"), n), p...)
		return p, fmt.Sprintf("armour-flood x%d", n)
	case "blank-lines":
		p = bytes.ReplaceAll(p, []byte("\n"), []byte("\n\n"))
	case "one-line":
		p = bytes.ReplaceAll(p, []byte("\n"), nil)
	case "lowercase-armour":
		p = bytes.ReplaceAll(p, []byte("BEGIN X509 CRL"), []byte("begin x509 crl"))
	case "wrong-padding":
		p = bytes.ReplaceAll(p, []byte("="), []byte("A"))
		p = bytes.Replace(p, []byte("\n-----END"), []byte("==\n-----END"), 1)
	case "dash-line":
		// a line that looks like (part of) an armour line somewhere in the body: 1..12 dashes, or dashes around a short text
		lines := bytes.Split(p, []byte("\n"))
		i := rapid.IntRange(0, len(lines)-1).Draw(t, "dl")
		k := rapid.IntRange(1, 12).Draw(t, "dk")
		l := bytes.Repeat([]byte("-"), k)
		switch rapid.IntRange(0, 4).Draw(t, "dshape") {
		case 1:
			l = append(l, []byte("A")...)
		case 2:
			l = append([]byte("A"), l...)
		case 3:
			l = append(append(append([]byte{}, l...), 'A'), l...)
		}
		if rapid.Bool().Draw(t, "dcr") {
			l = append(l, '\r')
		}
		lines = append(lines[:i], append([][]byte{l}, lines[i:]...)...)
		p = bytes.Join(lines, []byte("\n"))
		return p, fmt.Sprintf("dash-line-%d", k)
	case "crlf-mixed":
		lines := bytes.Split(p, []byte("\n"))
		for i := range lines {
			if i%2 == 0 && i < len(lines)-1 {
				lines[i] = append(lines[i], '\r')
			}
		}
		p = bytes.Join(lines, []byte("\n"))
	}
	return p, kind
}

func genPEMCase(t *rapid.T) Case {
	c := Case{Target: "pem"}
	spec, key := baseSpec(t)
	c.Data, c.Kind = mutatePEM(t, spec.MustBuild(gen.K(key)))
	if rapid.IntRange(0, 3).Draw(t, "pemrandom") == 0 {
		c.Kind = "random"
		c.Data = rapid.SliceOfN(rapid.Byte(), 0, 300).Draw(t, "pemb")
	}
	return c
}

func genChainCase(t *rapid.T) Case {
	c := Case{Target: "chain", Alg: rapid.IntRange(0, 4).Draw(t, "calg")}
	pkiOnce()
	valid := [][]byte{}
	for _, form := range []string{"keyid", "issuerserial", "both"} {
		ext, _ := gen.AKIExtension(form, chainPKI.inter.Cert)
		valid = append(valid, ext.Value)
	}
	switch rapid.IntRange(0, 5).Draw(t, "ck") {
	case 4:
		// lookup by issuer NAME (the list has no authority key identifier): the name of a chain certificate whose
		// attribute value got another ASN.1 type (OCTET STRING, INTEGER, BOOLEAN, NULL, BMPString, TeletexString, SEQUENCE...)
		c.Kind = "issuer-retag"
		name := append([]byte{}, chainPKI.inter.Cert.RawSubject...)
		if i := bytes.Index(name, []byte("c07 inter")); i >= 2 {
			name[i-2] = rapid.SampledFrom([]byte{0x04, 0x02, 0x01, 0x05, 0x1e, 0x14, 0x30, 0x31, 0x03, 0x17, 0x0a, 0x80, 0xa0}).Draw(t, "itag")
		}
		c.IssuerDER = name
		return c
	case 5:
		c.Kind = "issuer-mutate"
		c.IssuerDER, c.Note = mutateTree(t, chainPKI.inter.Cert.RawSubject)
		return c
	case 0:
		c.Kind = "random"
		c.Data = rapid.SliceOfN(rapid.Byte(), 0, 80).Draw(t, "cb")
	case 1:
		c.Kind = "valid"
		c.Data = rapid.SampledFrom(valid).Draw(t, "cv")
	default:
		c.Kind = "mutate"
		c.Data, c.Note = mutateTree(t, rapid.SampledFrom(valid).Draw(t, "cv"))
	}
	return c
}

type pki struct{ root, inter, leaf *gen.Cert }

var chainPKI *pki

func pkiOnce() {
	if chainPKI != nil {
		return
	}
	root := gen.Issue(gen.CertSpec{Key: "p256a", Subject: gen.CN("c07 root"), SerialHex: "01", IsCA: true}, nil)
	inter := gen.Issue(gen.CertSpec{Key: "p256b", Subject: gen.CN("c07 inter"), SerialHex: "02", IsCA: true}, root)
	leaf := gen.Issue(gen.CertSpec{Key: "p256c", Subject: gen.CN("c07 leaf"), SerialHex: "03"}, inter)
	chainPKI = &pki{root, inter, leaf}
}

// ---------------------------------------------------------------- oracle

const watchdog = 30 * time.Second

// guarded runs f and reports panic / hang / allocation.
var storeSeq atomic.Int64

var storeFactory = sync.OnceValue(func() crlstore.Factory {
	f, err := crlstore.CreateStoreFactory(crlstore.Map, tmpDir, zap.NewNop())
	if err != nil {
		panic(err)
	}
	return f
})

func guarded(inputLen int, f func()) error {
	return guardedWith(inputLen, uint64(4<<20)+64*uint64(inputLen), f)
}

func guardedWith(inputLen int, bound uint64, f func()) error {
	var before, after runtime.MemStats
	done := make(chan error, 1)
	runtime.ReadMemStats(&before)
	go func() {
		defer func() {
			if r := recover(); r != nil {
				done <- fmt.Errorf("panic: %v\n%s", r, debug.Stack())
				return
			}
			done <- nil
		}()
		f()
	}()
	select {
	case err := <-done:
		if err != nil {
			return err
		}
	case <-time.After(watchdog):
		return fmt.Errorf("no result after %v (loop without progress?)", watchdog)
	}
	runtime.ReadMemStats(&after)
	alloc := after.TotalAlloc - before.TotalAlloc
	if alloc > bound {
		return fmt.Errorf("allocated %d bytes for a %d byte input (bound %d): allocation not backed by input data", alloc, inputLen, bound)
	}
	return nil
}

// prepassOK mirrors what the reader's algorithm pre-pass needs: outer SEQUENCE
// header, a tbs TLV whose declared length is backed by data, followed by a
// decodable AlgorithmIdentifier with a supported OID.
func prepassOK(b []byte) bool {
	if bytes.HasPrefix(b, []byte("-----")) {
		blkStart := bytes.IndexByte(b, '\n')
		if blkStart < 0 {
			return false
		}
		var raw []byte
		for _, line := range bytes.Split(b[blkStart+1:], []byte("\n")) {
			if bytes.HasPrefix(line, []byte("-----")) {
				break
			}
			raw = append(raw, bytes.TrimSpace(line)...)
		}
		dec := make([]byte, len(raw))
		n, _ := base64.StdEncoding.Decode(dec, raw)
		b = dec[:n]
	}
	if len(b) < 4 || b[0] != 0x30 {
		return false
	}
	h := hdrLen(b)
	if h > len(b) {
		return false
	}
	rest := b[h:]
	var tbs asn1.RawValue
	rest2, err := asn1.Unmarshal(rest, &tbs)
	if err != nil {
		return false
	}
	var alg pkix.AlgorithmIdentifier
	if _, err := asn1.Unmarshal(rest2, &alg); err != nil {
		return false
	}
	a, ok := gen.AlgByOID(alg.Algorithm.String())
	return ok && a.Supported
}

func runCase(c Case, x *ev.Ctx) error {
	x.Classf("%s/%s", c.Target, c.Kind)
	switch c.Target {
	case "crl":
		p := filepath.Join(tmpDir, "in.crl")
		if err := os.WriteFile(p, c.Data, 0o600); err != nil {
			panic(err)
		}
		d := &discard{}
		var rerr error
		err := guarded(len(c.Data), func() {
			_, rerr = crlreader.StreamingCRLFileReader{}.ReadCRL(d, p)
		})
		if err != nil {
			return fmt.Errorf("ReadCRL on %d hostile bytes (%s %s): %v", len(c.Data), c.Kind, c.Note, err)
		}
		if rerr == nil {
			x.Class("crl/accepted")
		}
		// the same bytes through the pipeline a fetched list really takes: reader -> persisting processor -> store
		// (memory back-end). Whatever the reader hands out, the store must take or refuse it without crashing.
		if d.started {
			st, serr := storeFactory().CreateStore(fmt.Sprintf("c07-%d", storeSeq.Add(1)), true)
			if serr != nil {
				panic(serr)
			}
			var perr error
			err := guardedWith(len(c.Data), 64<<20+512*uint64(len(c.Data)), func() {
				_, perr = crlreader.StreamingCRLFileReader{}.ReadCRL(crlstore.CRLPersisterProcessor{CRLStore: st}, p)
			})
			st.Close()
			st.Delete()
			if err != nil {
				return fmt.Errorf("reader -> store pipeline on %d hostile bytes (%s %s): %v", len(c.Data), c.Kind, c.Note, err)
			}
			x.Class("crl/through-store")
			if perr == nil {
				x.Class("crl/stored")
			}
		}
		if prepassOK(c.Data) || c.Kind == "alg-swap" {
			x.Class("crl/reached-main-pass")
			if len(c.Data) > 70000 {
				x.Class("crl/large-base")
			}
			x.NonTrivial(fmt.Sprintf("crl|%s|%s|%d|%v", c.Kind, c.Note, len(c.Data)/64, d.started))
		}
	case "chain":
		pkiOnce()
		chains := core.NewCertificateChains([][]*x509.Certificate{{chainPKI.leaf.Cert, chainPKI.inter.Cert, chainPKI.root.Cert}}, []*x509.Certificate{chainPKI.root.Cert})
		exts := []pkix.Extension{{Id: asn1.ObjectIdentifier{2, 5, 29, 20}, Value: []byte{2, 1, 1}}, {Id: asn1.ObjectIdentifier{2, 5, 29, 35}, Value: c.Data}}
		issuer := gen.CN("c07 inter").RDN()
		if len(c.IssuerDER) > 0 {
			parsed, perr := asn1parser.ParseRDNSequence(c.IssuerDER)
			if perr != nil || parsed == nil {
				x.Class("chain/issuer-name-not-parseable")
				return nil
			}
			issuer = *parsed
			exts = exts[:1] // no authority key identifier: candidates are looked up by name
		}
		var cands []*core.CertificateChainEntry
		var cerr error
		err := guarded(len(c.Data), func() {
			cands, cerr = core.FindCertificateIssuerCandidates(&issuer, &exts, x509.PublicKeyAlgorithm(c.Alg), chains)
		})
		if err != nil {
			return fmt.Errorf("FindCertificateIssuerCandidates with AKI value % x: %v", c.Data, err)
		}
		if cerr == nil {
			x.Classf("chain/candidates-%d", len(cands))
		}
		if len(c.IssuerDER) > 0 {
			x.NonTrivial(fmt.Sprintf("chain|%s|%x", c.Kind, c.IssuerDER))
		} else if _, perr := gen.ParseAKI(c.Data); perr == nil {
			x.NonTrivial(fmt.Sprintf("chain|%s|%x", c.Kind, c.Data))
		}
	case "rdn":
		var got *pkix.RDNSequence
		var perr error
		err := guarded(len(c.Data), func() { got, perr = asn1parser.ParseRDNSequence(c.Data) })
		if err != nil {
			return fmt.Errorf("ParseRDNSequence(% x): %v", c.Data, err)
		}
		if perr == nil {
			var ref pkix.RDNSequence
			// trailing bytes after the first SEQUENCE are not the parser's business (it reads from a stream)
			_, rerr := asn1.Unmarshal(c.Data, &ref)
			if rerr != nil || !reflect.DeepEqual(ref, *got) {
				return fmt.Errorf("ParseRDNSequence(% x) accepted what the reference decoder rejects or decodes differently (%v)", c.Data, rerr)
			}
			x.Class("rdn/accepted")
		}
		if len(c.Data) > 2 && c.Data[0] == 0x30 {
			x.NonTrivial(fmt.Sprintf("rdn|%s|%x", c.Kind, c.Data))
		}
	case "pem":
		p := filepath.Join(tmpDir, "in.pem")
		if err := os.WriteFile(p, c.Data, 0o600); err != nil {
			panic(err)
		}
		err := guarded(len(c.Data), func() {
			f, err := os.Open(p)
			if err != nil {
				panic(err)
			}
			defer f.Close()
			pemreader.IsPemFile(f)
			r := pemreader.NewPemReader(bufio.NewReader(f))
			buf := make([]byte, 128)
			total := 0
			for i := 0; ; i++ {
				n, err := r.Read(buf)
				total += n
				if err != nil {
					break
				}
				if n == 0 && i > len(c.Data)+8 {
					panic("PemReader returned (0, nil) more often than the input has bytes: no progress")
				}
			}
			if total > len(c.Data) {
				panic("PemReader produced more bytes than the input holds")
			}
		})
		if err != nil {
			return fmt.Errorf("PemReader on %d bytes (%s): %v", len(c.Data), c.Kind, err)
		}
		if bytes.Contains(c.Data, []byte("-----")) {
			x.NonTrivial(fmt.Sprintf("pem|%s|%d", c.Kind, len(c.Data)/16))
		}
	}
	return nil
}

var spec = ev.Spec[Case]{
	ID:       "C07",
	Gen:      genCase,
	Run:      runCase,
	Inflight: true,
	Rule:     "rapid draws hostile inputs for four entry points: ReadCRL on a file (random bytes; every-position truncations of valid DER/PEM CRLs; structure-aware tree mutations of a valid CRL that keep enclosing lengths consistent: hostile length forms 0x80..0x8F/2^31/2^63/2^64-1/negative, tag swaps, length +-delta, dropped content, nesting up to 2000, duplicate/delete/empty; per-field hostile lengths; PEM armour/line/newline damage incl. armour floods and lines of 1..12 dashes with or without text; entries carrying a certificateIssuer extension with GeneralNames of every shape), the chain matcher with mutated AKI values and (lookup by name) with issuer names whose attribute values carry other ASN.1 types or are tree-mutated, ParseRDNSequence (differential with encoding/asn1) and PemReader. Oracle inside the target: no panic, result within 30 s, TotalAlloc delta <= 4 MiB + 64*len(input), max stack 16 MiB; every input whose header the reader accepts is additionally pushed through the real pipeline reader -> persisting processor -> memory store (no panic, result within 30 s, TotalAlloc delta <= 64 MiB + 512*len(input)). Non-trivial: the input passes the reader's algorithm pre-pass (so the main pass runs) / the AKI value decodes / the bytes start a SEQUENCE / contain armour; distinct by (kind, mutation, size bucket).",
	Assumptions: []string{
		"runtime.MemStats.TotalAlloc measures allocation of the call (no other goroutine allocates during a case)",
		"the stack cap (debug.SetMaxStack 16 MiB) is far above what any well-formed CRL needs",
	},
}

func TestProp(t *testing.T) { ev.Check(t, spec) }
func TestReplay(t *testing.T) {
	// a crasher saved by the native fuzzer ("go test fuzz v1" corpus file) is replayed as a crl case
	if p := os.Getenv("VERIF_REPLAY"); p != "" {
		if b, err := os.ReadFile(p); err == nil && bytes.HasPrefix(b, []byte("go test fuzz v1")) {
			lines := strings.SplitN(string(b), "\n", 3)
			if len(lines) >= 2 && strings.HasPrefix(lines[1], "[]byte(") {
				q := strings.TrimSuffix(strings.TrimPrefix(strings.TrimSpace(lines[1]), "[]byte("), ")")
				data, err := strconv.Unquote(q)
				if err != nil {
					t.Fatalf("cannot parse fuzz corpus file: %v", err)
				}
				c := Case{Target: "crl", Kind: "fuzz", Data: []byte(data)}
				if len(lines) >= 3 && strings.HasPrefix(strings.TrimSpace(lines[2]), "int(") {
					// FuzzAKI corpus entry: ([]byte, int)
					n, _ := strconv.Atoi(strings.TrimSuffix(strings.TrimPrefix(strings.TrimSpace(lines[2]), "int("), ")"))
					c = Case{Target: "chain", Kind: "fuzz", Data: []byte(data), Alg: ((n % 5) + 5) % 5}
				}
				if err := spec.Run(c, ev.NewCtx()); err != nil {
					t.Fatalf("C07 violated on replay: %v", err)
				}
				return
			}
		}
	}
	ev.Replay(t, spec)
}
