package c13

import (
	"crypto/x509"
	"encoding/json"
	"fmt"
	"net/http"
	"os"
	"os/exec"
	"path/filepath"
	"runtime"
	"strings"
	"sync"
	"sync/atomic"
	"testing"
	"time"

	"verifharness/ev"
	"verifharness/world"

	"github.com/gr33nbl00d/caddy-revocation-validator/core"
	"github.com/gr33nbl00d/caddy-revocation-validator/core/verifhook"
	"pgregory.net/rapid"
)

// Op is one operation of one goroutine.
type Op struct {
	// Kind: handshake | tick | force | confupdate | ocsp | pause
	Kind  string `json:"k"`
	Loc   int    `json:"l,omitempty"` // location index (handshake)
	Probe int    `json:"p,omitempty"` // 0 listed in both lists, 1 listed only in the new list, 2 unlisted, 3 no-CDP listed, 4 certificate of the same-name sibling CA naming the same CDP
	US    int    `json:"us,omitempty"`
}

// Case is one concurrent scenario.
type Case struct {
	Disk       bool   `json:"disk"`
	Background bool   `json:"background"`
	Strict     bool   `json:"strict"`
	Locations  int    `json:"locations"`
	Conf       bool   `json:"conf"`          // location 0 is also a configured crl_url
	BadPrefix  bool   `json:"bad_prefix"`    // before the run, a refresh of location 0 failed signature verification
	Publish    int    `json:"publish_after"` // the new list is published after this many ops of goroutine 0 (<0 never)
	Cleanup    bool   `json:"cleanup"`       // Cleanup runs while the goroutines are still busy
	Threads    [][]Op `json:"threads"`
	Yield      []int  `json:"yield"` // microseconds slept at successive hook sites (cyclic); 0 = Gosched
	Entries    int    `json:"entries"`
	// NoTrusted: no trusted_signature_certs are configured: a list can only be verified with the chain of a handshake
	NoTrusted bool `json:"no_trusted,omitempty"`
	// Flaky: once the goroutines run, the first Flaky requests to every location are answered with an error page
	// (the list follows on the next request): concurrent first-use handshakes of which one fails and the next succeeds
	Flaky int `json:"flaky,omitempty"`
}

func genCase(t *rapid.T) Case {
	c := Case{
		Disk:       rapid.Bool().Draw(t, "disk"),
		Background: rapid.Bool().Draw(t, "background"),
		Strict:     rapid.IntRange(0, 3).Draw(t, "strict") == 0,
		Locations:  rapid.IntRange(1, 3).Draw(t, "locations"),
		Conf:       rapid.IntRange(0, 2).Draw(t, "conf") == 0,
		BadPrefix:  rapid.IntRange(0, 2).Draw(t, "badprefix") == 0,
		Publish:    rapid.IntRange(-1, 6).Draw(t, "publish"),
		Cleanup:    rapid.IntRange(0, 3).Draw(t, "cleanup") == 0,
		Yield:      rapid.SliceOfN(rapid.SampledFrom([]int{0, 0, 20, 200, 1000}), 1, 6).Draw(t, "yield"),
		Entries:    rapid.SampledFrom([]int{1, 30, 1500}).Draw(t, "entries"),
		Flaky:      rapid.SampledFrom([]int{0, 0, 1, 1, 2}).Draw(t, "flaky"),
		NoTrusted:  rapid.IntRange(0, 2).Draw(t, "notrusted") == 0,
	}
	n := rapid.IntRange(2, 16).Draw(t, "threads")
	for g := 0; g < n; g++ {
		var ops []Op
		k := rapid.IntRange(2, 12).Draw(t, fmt.Sprintf("n%d", g))
		for i := 0; i < k; i++ {
			l := fmt.Sprintf("g%d_%d", g, i)
			kind := rapid.SampledFrom([]string{"handshake", "handshake", "handshake", "handshake", "tick", "force", "confupdate", "ocsp", "ocsp", "pause"}).Draw(t, l+"k")
			op := Op{Kind: kind}
			switch kind {
			case "handshake":
				op.Loc = rapid.IntRange(0, c.Locations-1).Draw(t, l+"l")
				op.Probe = rapid.IntRange(0, 4).Draw(t, l+"p")
			case "pause":
				op.US = rapid.SampledFrom([]int{50, 500, 3000}).Draw(t, l+"us")
			}
			ops = append(ops, op)
		}
		c.Threads = append(c.Threads, ops)
	}
	if c.Conf || c.BadPrefix {
		c.NoTrusted = false // configured lists and the prefix state need a configured trusted signer
	}
	if c.NoTrusted {
		// without a trusted signer a location announced by the sibling CA's certificate stays unloaded; see the remark on
		// the flaky origin below: no Cleanup in the middle of the run
		c.Cleanup = false
	}
	if c.Flaky > 0 {
		// first-use stampede: every goroutine starts with a handshake naming location 0 (listed / unlisted alternating), so
		// that several first-use loads of one location overlap while the origin's first answers are error pages
		for g := range c.Threads {
			c.Threads[g][0] = Op{Kind: "handshake", Loc: 0, Probe: []int{0, 2}[g%2]}
		}
		// With the flaky origin a location may still be unloaded when Cleanup arrives; every later handshake naming it then
		// runs a first-use load whose commit retries closing the already closed database (5 x 1 s) under the entry lock, so
		// a dozen queued handshakes exceed any per-call watchdog without anything being stuck. Cleanup during the run is
		// explored without the flaky origin (and the other way round).
		c.Cleanup = false
	}
	return c
}

// refreshWatchdog: a refresh that races shutdown finds its store closed; the store layer retries closing an already
// closed LevelDB 5 x 1 s per entry while holding the process-wide refresh mutex, so refreshes queued behind it are slow
// (not hung). The watchdog for refresh operations is therefore far above that.
const refreshWatchdog = 120 * time.Second

// childResult is what the child reports.
type childResult struct {
	Violation string         `json:"violation,omitempty"`
	Counts    map[string]int `json:"counts"`
	Shared    bool           `json:"shared"` // >= 2 goroutines touched the same location with at least one writer
}

func TestChild(t *testing.T) {
	raw := os.Getenv("VERIF_C13_CASE")
	if raw == "" {
		t.Skip("not a child")
	}
	var c Case
	if err := json.Unmarshal([]byte(raw), &c); err != nil {
		t.Fatal(err)
	}
	res := runScenario(c)
	b, _ := json.Marshal(res)
	fmt.Printf("\nC13-RESULT %s\n", b)
}

func runScenario(c Case) (res childResult) {
	counts := map[string]int{}
	var mu sync.Mutex
	count := func(k string) {
		mu.Lock()
		counts[k]++
		mu.Unlock()
	}
	defer func() {
		// hand out a copy: goroutines that outlive the scenario (after a hang) must not share the map
		mu.Lock()
		res.Counts = map[string]int{}
		for k, v := range counts {
			res.Counts[k] = v
		}
		mu.Unlock()
	}()
	var violation atomic.Value
	fail := func(f string, a ...any) {
		violation.CompareAndSwap(nil, fmt.Sprintf(f, a...))
	}
	name := fmt.Sprintf("c13-%d", os.Getpid())
	o := world.NewOrigin()
	defer o.Close()
	pki := world.NewSimplePKI(name, "p256a", "p256b")
	sib := world.NewSimplePKI(name, "p256c", "p256d")
	common := []string{"0a"}
	for i := 1; i < c.Entries; i++ {
		common = append(common, fmt.Sprintf("cc%06x", i))
	}
	oldList := func() []byte { return pki.CRL(1, common...) }
	newList := func() []byte { return pki.CRL(2, append([]string{"0b"}, common...)...) }
	type loc struct {
		path   string
		probes [5][][]*x509.Certificate
	}
	var locs []*loc
	for i := 0; i < c.Locations; i++ {
		l := &loc{path: fmt.Sprintf("/l%d.crl", i)}
		o.Serve(l.path, oldList())
		url := []string{o.URL(l.path)}
		l.probes[0] = pki.ChainFor(pki.Leaf("0a", url, nil))
		l.probes[1] = pki.ChainFor(pki.Leaf("0b", url, nil))
		l.probes[2] = pki.ChainFor(pki.Leaf("0c", url, nil))
		l.probes[3] = pki.ChainFor(pki.Leaf("0a", nil, nil))
		// a certificate issued by the sibling CA (same name, other key) naming the same CDP: its chain verifies the
		// list that failed verification in the prefix state (key rollover situation)
		l.probes[4] = sib.ChainFor(sib.Leaf("0e", url, nil))
		locs = append(locs, l)
	}
	// OCSP side
	ocspLeaf := pki.Leaf("0d", nil, []string{o.URL("/ocsp")})
	parties := world.NewOCSPParties(name, pki.Issuer(), ocspLeaf)
	responder := world.NewResponder(o, "/ocsp", parties, world.OCSPAnswer{Kind: "good"})
	ocspChk := world.NewOCSPChecker(world.OCSPOpts{Cache: 50 * time.Millisecond})
	ocspChains := pki.ChainFor(ocspLeaf)
	// a second certificate whose responder always says revoked: concurrent lookups of different certificates on one
	// instance must not mix their answers
	ocspLeaf2 := pki.Leaf("0f", nil, []string{o.URL("/ocsp2")})
	world.NewResponder(o, "/ocsp2", world.NewOCSPParties(name+"2", pki.Issuer(), ocspLeaf2), world.OCSPAnswer{Kind: "revoked"})
	ocspChains2 := pki.ChainFor(ocspLeaf2)

	opts := world.CRLOpts{WorkDir: world.NewDir("c13"), Disk: c.Disk, Background: c.Background, Strict: c.Strict, Trusted: []*x509.Certificate{pki.Issuer().Cert}}
	if c.NoTrusted {
		opts.Trusted = nil
	}
	if c.Conf {
		opts.URLs = []string{o.URL(locs[0].path)}
	}
	ch, err := world.NewChecker(opts)
	if err != nil {
		res.Violation = "setup: " + err.Error()
		return
	}
	repo := ch.VerifRepository()
	if c.BadPrefix {
		// bring location 0 into the state "last refresh failed signature verification"
		if v := world.Ask(ch, locs[0].probes[0]); v.Kind == "hang" || v.Kind == "panic" {
			res.Violation = "prefix handshake: " + v.String()
			return
		}
		ch.VerifForceUpdate()
		o.Serve(locs[0].path, sib.CRL(2, append([]string{"0b"}, common...)...))
		ch.VerifForceUpdate()
		o.Serve(locs[0].path, oldList())
	}
	var hookN, updStart, updDone atomic.Int64
	verifhook.Set(func(site string) {
		switch site {
		case "checker.update.start":
			updStart.Add(1)
		case "checker.update.done":
			updDone.Add(1)
		}
		d := c.Yield[int(hookN.Add(1))%len(c.Yield)]
		if d == 0 {
			runtime.Gosched()
		} else {
			time.Sleep(time.Duration(d) * time.Microsecond)
		}
	})
	defer verifhook.Set(nil)

	var published, cleaned atomic.Bool
	var everNew atomic.Bool
	// flaky origin: per location the first c.Flaky requests (from now on) get an error page
	errPages := make([]atomic.Int64, len(locs))
	okListed := make([]atomic.Int64, len(locs))
	if c.Flaky > 0 {
		for i, l := range locs {
			i := i
			var seen atomic.Int64
			o.Set(l.path, func(w http.ResponseWriter, r *http.Request, _ []byte, _ int) {
				if int(seen.Add(1)) <= c.Flaky {
					errPages[i].Add(1)
					w.Write([]byte("<html>502 bad gateway</html>"))
					return
				}
				if published.Load() {
					w.Write(newList())
				} else {
					w.Write(oldList())
				}
			})
		}
	}
	writers := map[int]int{}
	touch := map[int]map[int]bool{}
	for g, ops := range c.Threads {
		for _, op := range ops {
			if op.Kind == "handshake" {
				if touch[op.Loc] == nil {
					touch[op.Loc] = map[int]bool{}
				}
				touch[op.Loc][g] = true
			}
			if op.Kind == "tick" || op.Kind == "force" || op.Kind == "confupdate" {
				writers[g]++
			}
		}
	}
	for _, gs := range touch {
		if len(gs) >= 2 && (len(writers) > 0 || c.Publish >= 0) {
			res.Shared = true
		}
	}
	var wg sync.WaitGroup
	for g, ops := range c.Threads {
		wg.Add(1)
		go func(g int, ops []Op) {
			defer wg.Done()
			for i, op := range ops {
				if g == 0 && i == c.Publish {
					if c.Flaky == 0 {
						for _, l := range locs {
							o.Serve(l.path, newList())
						}
					}
					published.Store(true)
				}
				switch op.Kind {
				case "handshake":
					pubBefore := published.Load()
					cleanBefore := cleaned.Load()
					v := world.Ask(ch, locs[op.Loc].probes[op.Probe])
					count("handshake->" + v.Kind)
					switch v.Kind {
					case "hang":
						fail("handshake(loc %d, probe %d) by goroutine %d never returned: %s", op.Loc, op.Probe, g, v.Err)
					case "panic":
						fail("handshake panicked: %s", v.Err)
					case "error":
						// errors are legitimate only in strict mode (list not in force yet) or once shutdown has begun
						if !c.Strict && !cleanBefore && !cleaned.Load() {
							fail("handshake(loc %d, probe %d) failed in lenient mode before shutdown: %s", op.Loc, op.Probe, v.Err)
						}
					case "revoked":
						if op.Probe == 4 {
							break
						}
						if op.Probe == 2 {
							fail("unlisted serial reported revoked")
						}
						if op.Probe == 1 && !pubBefore && !published.Load() {
							fail("serial of the NEW list reported revoked before the new list was published")
						}
						if op.Probe == 1 {
							everNew.Store(true)
						}
					case "ok":
						// probe 0 names the CDP: in active fetch mode the list is loaded before the verdict (origin healthy)
						if op.Probe == 0 && !c.Background && !cleanBefore && !cleaned.Load() && !c.BadPrefix {
							if c.Flaky == 0 {
								fail("serial listed in both lists was accepted by a handshake naming the CDP in fetch_actively mode (loc %d)", op.Loc)
							}
							okListed[op.Loc].Add(1) // legitimate only for a handshake whose own download got an error page (judged below)
						}
					}
				case "tick":
					if cleaned.Load() {
						continue
					}
					if _, err := world.Call("tick", refreshWatchdog, func() int { ch.VerifTick(); return 0 }); err != nil {
						fail("refresh tick never returned: %v", err)
					}
					count("tick")
				case "force":
					if cleaned.Load() {
						continue
					}
					if _, err := world.Call("forced refresh", refreshWatchdog, func() int { ch.VerifForceUpdate(); return 0 }); err != nil {
						fail("forced refresh never returned: %v", err)
					}
					count("force")
				case "confupdate":
					if cleaned.Load() {
						continue
					}
					if _, err := world.Call("UpdateCRL", refreshWatchdog, func() int {
						repo.UpdateCRL(&core.CRLLocations{CRLUrl: o.URL(locs[0].path)}, core.NewCertificateChains(nil, []*x509.Certificate{pki.Issuer().Cert}))
						return 0
					}); err != nil {
						fail("config CRL update never returned: %v", err)
					}
					count("confupdate")
				case "ocsp":
					if i%3 == 0 {
						responder.Set(world.OCSPAnswer{Kind: []string{"good", "revoked"}[(g+i)%2]})
					}
					if (g+i)%3 == 1 {
						v := world.Ask(ocspChk, ocspChains2)
						count("ocsp2->" + v.Kind)
						if v.Kind != "revoked" {
							fail("OCSP lookup of the certificate whose responder always answers 'revoked' returned %v while other certificates were looked up concurrently", v)
						}
						break
					}
					v := world.Ask(ocspChk, ocspChains)
					count("ocsp->" + v.Kind)
					if v.Kind != "ok" && v.Kind != "revoked" {
						fail("OCSP lookup: %v", v)
					}
				case "pause":
					time.Sleep(time.Duration(op.US) * time.Microsecond)
				}
			}
		}(g, ops)
	}
	if c.Cleanup {
		time.Sleep(300 * time.Microsecond)
		cleaned.Store(true)
		if _, err := world.Call("Cleanup", world.DefaultWatchdog, func() int { ch.Cleanup(); return 0 }); err != nil {
			fail("Cleanup never returned: %v", err)
		}
	}
	done := make(chan struct{})
	go func() { wg.Wait(); close(done) }()
	select {
	case <-done:
	case <-time.After(2 * refreshWatchdog):
		fail("goroutines did not finish")
	}
	if c.Background && c.Flaky == 0 && !c.Cleanup && violation.Load() == nil {
		// fetch_background: every location a handshake announced is fetched by a forced refresh that the announcement
		// itself triggers - without waiting for the next periodic tick. Once no refresh run is under way any more, a
		// handshake naming an announced location must find its list in force.
		deadline := time.Now().Add(refreshWatchdog)
		for stable := 0; stable < 3 && time.Now().Before(deadline); {
			// (a forced refresh is spawned as a goroutine by the handshake: give it a moment to start)
			time.Sleep(15 * time.Millisecond)
			if updStart.Load() == updDone.Load() {
				stable++
			} else {
				stable = 0
			}
		}
		sibTouched, announced := map[int]bool{}, map[int]bool{}
		for _, ops := range c.Threads {
			for _, op := range ops {
				if op.Kind == "handshake" && op.Probe == 4 {
					sibTouched[op.Loc] = true
				}
				if op.Kind == "handshake" && op.Probe != 3 { // probe 3 names no distribution point
					announced[op.Loc] = true
				}
			}
		}
		for loc := range announced {
			v := world.Ask(ch, locs[loc].probes[0])
			if v.Kind == "revoked" {
				continue
			}
			if !sibTouched[loc] {
				fail("fetch_background: location %d was announced by a handshake, no refresh run is under way any more, and the serial listed in both lists still answers %v: the forced refresh for the new location was dropped", loc, v)
				continue
			}
			// the location may have been announced by the certificate of the same-name sibling CA, whose chain cannot
			// verify the list: that first load fails legitimately. The handshake just made carried the right chain, so
			// the next refresh run must bring the list into force.
			if _, err := world.Call("forced refresh", refreshWatchdog, func() int { ch.VerifForceUpdate(); return 0 }); err != nil {
				fail("forced refresh never returned: %v", err)
			}
			if v2 := world.Ask(ch, locs[loc].probes[0]); v2.Kind != "revoked" {
				fail("fetch_background: location %d was first announced by a certificate whose chain cannot verify the list; after a handshake with the issuing CA's chain and a refresh run the serial listed in both lists still answers %v: the not yet loaded entry keeps the chains of its first announcer", loc, v2)
			}
		}
	}
	if c.Flaky > 0 && !c.Background && !c.BadPrefix && !c.Cleanup {
		for i := range locs {
			if ok, pages := okListed[i].Load(), errPages[i].Load(); ok > pages {
				fail("location %d: %d handshakes naming the CDP accepted the serial listed in both lists, but only %d downloads of the location got an error page: a handshake whose own download delivered the list answered 'not revoked'", i, ok, pages)
			}
		}
	}
	if !c.Cleanup {
		cleaned.Store(true)
		if _, err := world.Call("Cleanup", world.DefaultWatchdog, func() int { ch.Cleanup(); return 0 }); err != nil {
			fail("Cleanup never returned: %v", err)
		}
	}
	if v := violation.Load(); v != nil {
		res.Violation = v.(string)
	}
	return
}

var tmpDir string

// runChild runs one scenario in a child process of this test binary and evaluates race log, exit status and result line.
func runChild(test, env, tag string) (childResult, error) {
	var res childResult
	shard, _ := ev.Shard()
	raceLog := filepath.Join(tmpDir, fmt.Sprintf("race-%s-%d", tag, shard))
	os.Remove(raceLog)
	for _, f := range globRace(raceLog) {
		os.Remove(f)
	}
	cmd := exec.Command(os.Args[0], "-test.run", test, "-test.timeout", "400s")
	cmd.Env = append(os.Environ(), env, "GORACE=log_path="+raceLog+"")
	var out strings.Builder
	cmd.Stdout, cmd.Stderr = &out, &out
	err := cmd.Run()
	text := out.String()
	var races []string
	for _, f := range globRace(raceLog) {
		rb, _ := os.ReadFile(f)
		if strings.Contains(string(rb), "DATA RACE") {
			races = append(races, string(rb))
		}
		os.Remove(f)
	}
	if len(races) > 0 {
		r := races[0]
		if len(r) > 5000 {
			r = r[:5000]
		}
		return res, fmt.Errorf("the race detector reported a data race:\n%s", r)
	}
	i := strings.LastIndex(text, "C13-RESULT ")
	if err != nil || i < 0 {
		tail := text
		if len(tail) > 4000 {
			tail = tail[len(tail)-4000:]
		}
		return res, fmt.Errorf("the process running the scenario died (%v):\n%s", err, tail)
	}
	line := text[i+len("C13-RESULT "):]
	if j := strings.Index(line, "\n"); j >= 0 {
		line = line[:j]
	}
	if err := json.Unmarshal([]byte(line), &res); err != nil {
		return res, fmt.Errorf("harness: cannot parse child result: %v", err)
	}
	if res.Violation != "" {
		return res, fmt.Errorf("%s", res.Violation)
	}
	return res, nil
}

func runCase(c Case, x *ev.Ctx) error {
	b, _ := json.Marshal(c)
	res, err := runChild("^TestChild$", "VERIF_C13_CASE="+string(b), "crl")
	if err != nil {
		return err
	}
	for k, v := range res.Counts {
		_ = v
		x.Class(k)
	}
	x.Classf("threads=%d", len(c.Threads)/4*4)
	if c.BadPrefix {
		x.Class("prefix-failed-signature-verification")
	}
	if c.Cleanup {
		x.Class("cleanup-during-run")
	}
	if res.Shared {
		x.NonTrivial(string(b))
	}
	return nil
}

func globRace(prefix string) []string {
	m, _ := filepath.Glob(prefix + ".*")
	return m
}

var spec = ev.Spec[Case]{
	ID:          "C13",
	Gen:         genCase,
	Run:         runCase,
	Rule:        "rapid draws a concurrent scenario: 2..16 goroutines with 2..12 operations each from {handshake(one of 1..3 locations; probe listed in both lists / only in the new list / unlisted / listed but naming no CDP), refresh tick, forced (background-style) refresh, config-CRL update, OCSP lookup with a 50 ms cache while the responder flips, pause}, both back-ends, both fetch modes, strict or lenient, optionally location 0 also configured as crl_url, optionally the prefix state 'last refresh failed signature verification', publication of a new list at a drawn point, Cleanup during or after the run, list sizes 1..1500, optionally an origin whose first 1..2 requests per location get an error page (all goroutines then start with a handshake naming location 0), and sleeps/yields at the verif hook sites. Each scenario runs in its own child process built with -race. Oracles: the race detector log is empty; the child exits normally (no fatal error, no panic); every API call returns within the watchdog; verdicts are ones a sequential order could produce (unlisted never revoked, new-only never revoked before publication, a handshake naming the CDP in fetch_actively mode never accepts a serial listed in both lists (with the flaky origin: at most as many such acceptances per location as downloads that got an error page), no errors in lenient mode before shutdown; in fetch_background mode, once no refresh run is under way, every location a handshake announced is in force without any periodic tick (a location first announced by the sibling CA's certificate: after one more handshake with the issuing CA's chain and one refresh run). Non-trivial: >= 2 goroutines touch the same location and a writer (refresh / publication) is present. This explores schedules; it does not cover them.",
	Assumptions: []string{"the Go race detector is the oracle for data races; schedules are sampled, not enumerated"},
}

func TestMain(m *testing.M) {
	d, err := os.MkdirTemp("", "verif-c13-")
	if err != nil {
		panic(err)
	}
	tmpDir = d
	code := m.Run()
	world.Cleanup()
	os.RemoveAll(d)
	os.Exit(code)
}

func TestProp(t *testing.T)   { ev.Check(t, spec) }
func TestReplay(t *testing.T) { ev.Replay(t, spec) }
