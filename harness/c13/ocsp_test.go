package c13

import (
	"encoding/json"
	"fmt"
	"os"
	"sync"
	"sync/atomic"
	"testing"
	"time"

	"verifharness/ev"
	"verifharness/world"

	"pgregory.net/rapid"
)

// OCSPCase is a concurrent OCSP scenario around cache expiry: several goroutines look up the SAME certificate while
// its cached response runs out, is re-fetched, is evicted by the cache's own timer and is flushed by the Cleanup of
// another validator instance.
type OCSPCase struct {
	Threads int  `json:"threads"`
	CacheUS int  `json:"cache_us"` // default_cache_duration in microseconds (the responder sends no nextUpdate)
	Lookups int  `json:"lookups"`  // per goroutine
	Certs   int  `json:"certs"`    // 1: all goroutines use one certificate, 2: a second one (always revoked) is mixed in
	Flusher bool `json:"flusher"`  // another validator instance is provisioned and cleaned up repeatedly meanwhile
	Flip    bool `json:"flip"`     // the responder alternates good / revoked for certificate 1
	PauseUS int  `json:"pause_us"` // pause between lookups of one goroutine
	NextUpd bool `json:"next_update"`
}

func genOCSP(t *rapid.T) OCSPCase {
	c := genOCSPRaw(t)
	// bound the work of one case (real OCSP round trips under the race detector): at most 16000 lookups in total
	if c.Threads*c.Lookups > 16000 {
		c.Lookups = 16000 / c.Threads
	}
	return c
}

func genOCSPRaw(t *rapid.T) OCSPCase {
	return OCSPCase{
		Threads: rapid.SampledFrom([]int{2, 4, 8, 16, 16}).Draw(t, "threads"),
		CacheUS: rapid.SampledFrom([]int{200, 1000, 2000, 2000, 5000, 20000}).Draw(t, "cache"),
		Lookups: rapid.SampledFrom([]int{300, 1500, 4000}).Draw(t, "lookups"),
		Certs:   rapid.IntRange(1, 2).Draw(t, "certs"),
		Flusher: rapid.IntRange(0, 2).Draw(t, "flusher") == 0,
		Flip:    rapid.Bool().Draw(t, "flip"),
		PauseUS: rapid.SampledFrom([]int{0, 0, 50, 500}).Draw(t, "pause"),
	}
}

func TestChildOCSP(t *testing.T) {
	raw := os.Getenv("VERIF_C13_OCSP")
	if raw == "" {
		t.Skip("not a child")
	}
	var c OCSPCase
	if err := json.Unmarshal([]byte(raw), &c); err != nil {
		t.Fatal(err)
	}
	res := runOCSPScenario(c)
	b, _ := json.Marshal(res)
	fmt.Printf("\nC13-RESULT %s\n", b)
}

func runOCSPScenario(c OCSPCase) (res childResult) {
	counts := map[string]int{}
	var mu sync.Mutex
	count := func(k string) {
		mu.Lock()
		counts[k]++
		mu.Unlock()
	}
	defer func() {
		mu.Lock()
		res.Counts = map[string]int{}
		for k, v := range counts {
			res.Counts[k] = v
		}
		mu.Unlock()
	}()
	var violation atomic.Value
	fail := func(f string, a ...any) { violation.CompareAndSwap(nil, fmt.Sprintf(f, a...)) }
	name := fmt.Sprintf("c13o-%d", os.Getpid())
	o := world.NewOrigin()
	defer o.Close()
	pki := world.NewSimplePKI(name, "p256a", "p256b")
	leaf1 := pki.Leaf("0d", nil, []string{o.URL("/ocsp")})
	// the second certificate comes from ANOTHER CA: lookups of certificates of two issuers overlap
	pki2 := world.NewSimplePKI(name+" second ca", "p256c", "")
	leaf2 := pki2.Leaf("0f", nil, []string{o.URL("/ocsp2")})
	responder := world.NewResponder(o, "/ocsp", world.NewOCSPParties(name, pki.Issuer(), leaf1), world.OCSPAnswer{Kind: "good"})
	world.NewResponder(o, "/ocsp2", world.NewOCSPParties(name+"2", pki2.Issuer(), leaf2), world.OCSPAnswer{Kind: "revoked"})
	chk := world.NewOCSPChecker(world.OCSPOpts{Strict: true, Cache: time.Duration(c.CacheUS) * time.Microsecond})
	ch1, ch2 := pki.ChainFor(leaf1), pki2.ChainFor(leaf2)
	var wg sync.WaitGroup
	var stop atomic.Bool
	for g := 0; g < c.Threads; g++ {
		wg.Add(1)
		go func(g int) {
			defer wg.Done()
			for i := 0; i < c.Lookups && violation.Load() == nil; i++ {
				if c.Flip && g == 0 && i%16 == 0 {
					responder.Set(world.OCSPAnswer{Kind: []string{"good", "revoked"}[(i/16)%2]})
				}
				if c.Certs == 2 && (g+i)%3 == 1 {
					v := world.Ask(chk, ch2)
					count("ocsp2->" + v.Kind)
					if v.Kind != "revoked" {
						fail("OCSP lookup of the certificate whose responder always answers 'revoked' returned %v (lookup %d of goroutine %d)", v, i, g)
					}
				} else {
					v := world.Ask(chk, ch1)
					count("ocsp->" + v.Kind)
					switch {
					case v.Kind == "ok", v.Kind == "revoked" && c.Flip:
					default:
						fail("OCSP lookup %d of goroutine %d (responder reachable, answers authentic): %v", i, g, v)
					}
				}
				if c.PauseUS > 0 {
					time.Sleep(time.Duration(c.PauseUS) * time.Microsecond)
				}
			}
		}(g)
	}
	if c.Flusher {
		wg.Add(1)
		go func() {
			defer wg.Done()
			for !stop.Load() && violation.Load() == nil {
				other := world.NewOCSPChecker(world.OCSPOpts{Cache: time.Minute})
				if _, err := world.Call("Cleanup", world.DefaultWatchdog, func() int { other.Cleanup(); return 0 }); err != nil {
					fail("Cleanup of another OCSP validator instance never returned: %v", err)
				}
				count("other-instance-cleanup")
				time.Sleep(300 * time.Microsecond)
			}
		}()
	}
	done := make(chan struct{})
	go func() {
		// the lookup goroutines first, then the flusher
		for {
			mu.Lock()
			n := counts["ocsp->ok"] + counts["ocsp->revoked"] + counts["ocsp2->revoked"]
			mu.Unlock()
			if n >= c.Threads*c.Lookups || violation.Load() != nil {
				break
			}
			time.Sleep(2 * time.Millisecond)
		}
		stop.Store(true)
		wg.Wait()
		close(done)
	}()
	// no overall time budget (thousands of real OCSP round trips under the race detector on a busy machine are slow, not
	// wrong): a single call that does not return is reported by its own watchdog; here only a complete standstill counts
	progress := func() int {
		mu.Lock()
		defer mu.Unlock()
		n := 0
		for _, v := range counts {
			n += v
		}
		return n
	}
	last, lastChange := progress(), time.Now()
wait:
	for {
		select {
		case <-done:
			break wait
		case <-time.After(500 * time.Millisecond):
			if n := progress(); n != last {
				last, lastChange = n, time.Now()
			} else if time.Since(lastChange) > 3*world.DefaultWatchdog {
				fail("OCSP lookups came to a standstill: no call returned for %v", time.Since(lastChange).Round(time.Second))
				break wait
			}
		}
	}
	if _, err := world.Call("Cleanup", world.DefaultWatchdog, func() int { chk.Cleanup(); return 0 }); err != nil {
		fail("Cleanup never returned: %v", err)
	}
	res.Shared = c.Threads >= 2
	if responder.Requests() > 1 {
		count("cache-expired-and-refetched")
	}
	if v := violation.Load(); v != nil {
		res.Violation = v.(string)
	}
	return
}

func runOCSPCase(c OCSPCase, x *ev.Ctx) error {
	b, _ := json.Marshal(c)
	res, err := runChild("^TestChildOCSP$", "VERIF_C13_OCSP="+string(b), "ocsp")
	if err != nil {
		return err
	}
	for k := range res.Counts {
		x.Class(k)
	}
	x.Classf("threads=%d", c.Threads)
	x.Classf("cache=%dus", c.CacheUS)
	if res.Counts["cache-expired-and-refetched"] > 0 {
		x.NonTrivial(string(b))
	}
	return nil
}

var ocspSpec = ev.Spec[OCSPCase]{
	ID:          "C13",
	Gen:         genOCSP,
	Run:         runOCSPCase,
	Rule:        "OCSP lookups concurrently with cache expiry: 2..16 goroutines look up the same certificate 300..4000 times each (at most 16000 lookups per case) (optionally mixed with a second certificate, issued by another CA, whose responder always answers revoked) through the public IsRevoked while default_cache_duration is 0.2..20 ms (the responder sends no nextUpdate), so the cached response keeps running out, is deleted, re-fetched and evicted by the cache's timer; optionally another validator instance is provisioned and cleaned up meanwhile (its Cleanup flushes the process-wide cache) and the responder flips good/revoked. Own child process per case, built with -race. Oracles: every call returns within the watchdog, no panic, the race log is empty, verdicts are ones a sequential order allows (second certificate always revoked; first certificate ok, or revoked only if the responder flips; never an error while the responder is reachable). Non-trivial: the responder was asked more than once (the cache expired during the run).",
	Assumptions: []string{"schedules are sampled, not enumerated"},
}

func TestOCSPExpiry(t *testing.T)       { ev.Check(t, ocspSpec) }
func TestReplayOCSPExpiry(t *testing.T) { ev.Replay(t, ocspSpec) }
