package c03

import (
	"crypto/x509"
	"encoding/json"
	"fmt"
	"math/rand/v2"
	"os"
	"path/filepath"
	"sync/atomic"
	"testing"

	"verifharness/ev"
	"verifharness/gen"
	"verifharness/world"
)

// Cell is one cell of the mode truth table plus the seed-drawn details.
type Cell struct {
	Mode      string `json:"mode"` // "" (unset) | prefer_ocsp | prefer_crl | ocsp_only | crl_only | disabled
	OCSP      string `json:"ocsp"` // none | good | revoked | unavailable
	AIAStrict bool   `json:"aia_strict"`
	CRL       string `json:"crl"` // none | listed | notlisted | unavailable
	CDPStrict bool   `json:"cdp_strict"`
	Disk      bool   `json:"disk"`
	Shape     int    `json:"shape"` // 0 [leaf,root]  1 [leaf,int,root]  2 two chains  3 [leaf] alone (pinned in the trust pool)
	// drawn details
	Source    string `json:"source"` // where the CRL comes from for listed/notlisted: cdp | crl_url | crl_file
	SerialHex string `json:"serial"`
	CAKey     string `json:"ca_key"`
	Unavail   string `json:"unavail"` // how "unavailable" is realised: http503 | garbage | refused
	Others    int    `json:"others"`  // other serials in the list
}

func enabled(mode string) (ocsp, crl bool) {
	switch mode {
	case "", "prefer_ocsp", "prefer_crl":
		return true, true
	case "ocsp_only":
		return true, false
	case "crl_only":
		return false, true
	}
	return false, false
}

// refVerdict is the truth table, written once as a pure function of the cell.
func refVerdict(c Cell) bool { // true = rejected
	oe, ce := enabled(c.Mode)
	rej := false
	if oe {
		rej = rej || c.OCSP == "revoked" || (c.OCSP == "unavailable" && c.AIAStrict)
	}
	if ce {
		cdpInvolved := c.Source == "cdp"
		rej = rej || c.CRL == "listed" || (c.CRL == "unavailable" && c.CDPStrict && cdpInvolved)
	}
	return rej
}

func cells(seed int, refused bool) []Cell {
	r := rand.New(rand.NewPCG(uint64(seed), 0xc03))
	var out []Cell
	for _, mode := range []string{"", "prefer_ocsp", "prefer_crl", "ocsp_only", "crl_only", "disabled"} {
		for _, oc := range []string{"none", "good", "revoked", "unavailable"} {
			for _, as := range []bool{false, true} {
				for _, cr := range []string{"none", "listed", "notlisted", "unavailable"} {
					for _, cs := range []bool{false, true} {
						for _, disk := range []bool{false, true} {
							for shape := 0; shape < 4; shape++ {
								c := Cell{Mode: mode, OCSP: oc, AIAStrict: as, CRL: cr, CDPStrict: cs, Disk: disk, Shape: shape}
								c.Source = "cdp"
								if cr == "listed" || cr == "notlisted" {
									c.Source = []string{"cdp", "cdp", "crl_url", "crl_file"}[r.IntN(4)]
									if cr == "listed" && r.IntN(4) == 0 {
										// two sources for one certificate: its own distribution point serves a loadable list of
										// the same CA that does NOT list it, a configured crl_file lists it
										c.Source = "crl_file+own-cdp"
									}
								}
								c.SerialHex = []string{"05", "7fffffffffffffff", "8000000000000001", "ff00ff00ff00ff00ff00ff00ff00ff00ff00ff00", "0100"}[r.IntN(5)]
								c.CAKey = []string{"p256a", "rsa2048a", "p384", "p521"}[r.IntN(4)]
								c.Unavail = []string{"http503", "garbage"}[r.IntN(2)]
								if refused && r.IntN(6) == 0 {
									c.Unavail = "refused"
								}
								c.Others = []int{0, 1, 40}[r.IntN(3)]
								out = append(out, c)
							}
						}
					}
				}
			}
		}
	}
	return out
}

var seq atomic.Int64

func runCell(c Cell, x *ev.Ctx) error {
	id := seq.Add(1)
	name := fmt.Sprintf("c03-%d-%d", os.Getpid(), id)
	crlOrigin, ocspOrigin := world.NewOrigin(), world.NewOrigin()
	defer crlOrigin.Close()
	defer ocspOrigin.Close()
	dir := world.NewDir("c03")
	defer os.RemoveAll(dir)
	wd := filepath.Join(dir, "work")
	_, ce := enabled(c.Mode)
	if c.Mode != "disabled" {
		os.MkdirAll(wd, 0o755)
	}
	// PKI
	root := gen.Issue(gen.CertSpec{Key: "p256b", Subject: gen.CN(name + " root"), SerialHex: "1000", IsCA: true}, nil)
	ca := root
	var root2, caX *gen.Cert
	if c.Shape == 1 || c.Shape == 2 {
		ca = gen.Issue(gen.CertSpec{Key: c.CAKey, Subject: gen.CN(name + " ca"), SerialHex: "1001", IsCA: true}, root)
	} else {
		ca = gen.Issue(gen.CertSpec{Key: c.CAKey, Subject: gen.CN(name + " ca"), SerialHex: "1001", IsCA: true}, nil)
		root = ca
	}
	if c.Shape == 2 {
		root2 = gen.Issue(gen.CertSpec{Key: "p256c", Subject: gen.CN(name + " root2"), SerialHex: "2000", IsCA: true}, nil)
		caX = gen.Issue(gen.CertSpec{Key: c.CAKey, Subject: gen.CN(name + " ca"), SerialHex: "2001", IsCA: true}, root2) // cross certificate: same name and key
	}
	var cdp, aia []string
	crlURL := crlOrigin.URL("/ca.crl")
	if c.CRL != "none" && c.Source == "cdp" {
		cdp = []string{crlURL}
		if c.CRL == "unavailable" && c.Unavail == "refused" {
			cdp = []string{world.RefusedURL("/ca.crl")}
		}
	}
	if c.Source == "crl_file+own-cdp" {
		cdp = []string{crlOrigin.URL("/own.crl")}
		crlOrigin.Serve("/own.crl", world.CRLFor(ca, 7, "aa9999"))
	}
	if c.OCSP != "none" {
		aia = []string{ocspOrigin.URL("/ocsp")}
		if c.OCSP == "unavailable" && c.Unavail == "refused" {
			aia = []string{world.RefusedURL("/ocsp")}
		}
	}
	leaf := gen.Issue(gen.CertSpec{Key: "p256f", Subject: gen.CN(name + " client"), SerialHex: c.SerialHex, CDP: cdp, OCSP: aia}, ca)
	var chains [][]*x509.Certificate
	switch c.Shape {
	case 0:
		chains = [][]*x509.Certificate{{leaf.Cert, ca.Cert}}
	case 1:
		chains = [][]*x509.Certificate{{leaf.Cert, ca.Cert, root.Cert}}
	case 3:
		chains = [][]*x509.Certificate{{leaf.Cert}}
	default:
		chains = [][]*x509.Certificate{{leaf.Cert, ca.Cert, root.Cert}, {leaf.Cert, caX.Cert, root2.Cert}}
	}
	// CRL content
	serials := []string{}
	for i := 0; i < c.Others; i++ {
		serials = append(serials, fmt.Sprintf("aa%04x", i))
	}
	if c.CRL == "listed" {
		serials = append(serials[:len(serials)/2], append([]string{c.SerialHex}, serials[len(serials)/2:]...)...)
	}
	crlFile := filepath.Join(dir, "ca.crl")
	switch c.CRL {
	case "listed", "notlisted":
		der := world.CRLFor(ca, 1, serials...)
		crlOrigin.Serve("/ca.crl", der)
		os.WriteFile(crlFile, der, 0o600)
	case "unavailable":
		if c.Unavail == "garbage" {
			crlOrigin.Serve("/ca.crl", []byte("not a crl"))
		} else {
			crlOrigin.Status("/ca.crl", 503, "down")
		}
	}
	parties := world.NewOCSPParties(name, ca, leaf)
	switch c.OCSP {
	case "good", "revoked":
		// every other revoked answer carries a revocationTime a few hours ahead of the local clock
		world.NewResponder(ocspOrigin, "/ocsp", parties, world.OCSPAnswer{Kind: c.OCSP, RevokedAtFuture: c.OCSP == "revoked" && id%2 == 0})
	case "unavailable":
		k := "http500"
		if c.Unavail == "garbage" {
			k = "garbage"
		}
		world.NewResponder(ocspOrigin, "/ocsp", parties, world.OCSPAnswer{Kind: k})
	}
	// config
	cfg := map[string]any{}
	if c.Mode != "" {
		cfg["mode"] = c.Mode
	}
	crlCfg := map[string]any{"work_dir": wd, "cdp_config": map[string]any{"crl_cdp_strict": c.CDPStrict}, "trusted_signature_certs_files": []string{}}
	if c.Disk {
		crlCfg["storage_type"] = "disk"
	} else {
		crlCfg["storage_type"] = "memory"
	}
	caFile := filepath.Join(dir, "ca.pem")
	os.WriteFile(caFile, ca.PEM(), 0o600)
	if ce && (c.CRL == "listed" || c.CRL == "notlisted") {
		switch c.Source {
		case "crl_url":
			crlCfg["crl_urls"] = []string{crlURL}
			crlCfg["trusted_signature_certs_files"] = []string{caFile}
		case "crl_file", "crl_file+own-cdp":
			crlCfg["crl_files"] = []string{crlFile}
			crlCfg["trusted_signature_certs_files"] = []string{caFile}
		}
	}
	if c.Mode != "ocsp_only" || id%2 == 0 {
		cfg["crl_config"] = crlCfg
	}
	ocspCfg := map[string]any{"ocsp_aia_strict": c.AIAStrict}
	if c.Shape == 3 {
		// the issuer is not part of the verified chain: it is known through the trusted certificate files
		crlCfg["trusted_signature_certs_files"] = []string{caFile}
		ocspCfg["trusted_responder_certs_files"] = []string{caFile}
	}
	cfg["ocsp_config"] = ocspCfg
	raw, _ := json.Marshal(cfg)
	v, err := world.LoadValidatorJSON(raw)
	if err != nil {
		return fmt.Errorf("cell %+v: provisioning failed: %v (config %s)", c, err, raw)
	}
	defer v.Close()
	crlBefore, ocspBefore := crlOrigin.TotalHits(), ocspOrigin.TotalHits()
	type res struct{ err error }
	r, werr := world.Call("VerifyClientCertificate", world.DefaultWatchdog, func() res { return res{v.V.VerifyClientCertificate(nil, chains)} })
	if werr != nil {
		return fmt.Errorf("cell %+v: %v", c, werr)
	}
	rejected := r.err != nil
	want := refVerdict(c)
	if rejected != want {
		return fmt.Errorf("cell {mode=%q ocsp=%s aia_strict=%v crl=%s(%s) cdp_strict=%v disk=%v shape=%d}: handshake rejected=%v (err=%v), the mode's truth table says rejected=%v", c.Mode, c.OCSP, c.AIAStrict, c.CRL, c.Source, c.CDPStrict, c.Disk, c.Shape, rejected, r.err, want)
	}
	crlHits, ocspHits := crlOrigin.TotalHits()-crlBefore, ocspOrigin.TotalHits()-ocspBefore
	oe, _ := enabled(c.Mode)
	switch {
	case c.Mode == "disabled":
		if crlOrigin.TotalHits()+ocspOrigin.TotalHits() > 0 {
			return fmt.Errorf("mode disabled contacted the network (%d CRL, %d OCSP requests)", crlOrigin.TotalHits(), ocspOrigin.TotalHits())
		}
		if _, err := os.Stat(wd); err == nil {
			return fmt.Errorf("mode disabled touched storage: work_dir %s was created", wd)
		}
	case !ce && crlOrigin.TotalHits() > 0:
		return fmt.Errorf("mode %s consulted CRLs (%d requests to the CRL origin)", c.Mode, crlOrigin.TotalHits())
	case !oe && ocspOrigin.TotalHits() > 0:
		return fmt.Errorf("mode %s contacted an OCSP responder (%d requests)", c.Mode, ocspOrigin.TotalHits())
	}
	if oe && ce && c.OCSP == "good" && c.Source == "cdp" && c.CRL != "none" && c.Unavail != "refused" && crlHits == 0 {
		return fmt.Errorf("mode %q enforces both mechanisms, OCSP answered good, but the CRL of the certificate's CDP was never requested", c.Mode)
	}
	_ = ocspHits
	x.Classf("mode=%s", c.Mode)
	x.Classf("rejected=%v", rejected)
	if c.OCSP != "none" || c.CRL != "none" {
		x.NonTrivial(fmt.Sprintf("%s|%s|%v|%s|%v|%v|%d", c.Mode, c.OCSP, c.AIAStrict, c.CRL, c.CDPStrict, c.Disk, c.Shape))
	}
	return nil
}

var spec = ev.Spec[Cell]{
	ID:   "C03",
	Run:  runCell,
	Rule: "exhaustive truth table: mode {unset, prefer_ocsp, prefer_crl, ocsp_only, crl_only, disabled} x OCSP {no AIA, good, revoked, unavailable} x ocsp_aia_strict x CRL {none known, listed, not listed, CDP unavailable} x crl_cdp_strict x storage x verified-chain shape {[leaf,ca], [leaf,ca,root], two chains with a cross certificate, [leaf] alone with the issuer only in the trusted certificate files} = 3072 cells, each run through the real module (JSON config -> caddy LoadModuleByID -> VerifyClientCertificate) against scripted CRL and OCSP origins; CRL source (CDP / crl_urls / crl_files / a crl_file listing the certificate while its own CDP serves a loadable list of the same CA that does not), serial width, CA key type, list size and the way 'unavailable' is realised are drawn from VERIF_SEED. Oracle: rejected iff (OCSP enabled and (revoked or (unavailable and strict))) or (CRL enabled and (listed or (CDP unavailable and strict))); side effects from the origin hit logs and the file system: disabled => no request and work_dir not even created, ocsp_only => no CRL request, crl_only => no OCSP request, both prefer_* with OCSP good => the CDP CRL was requested. Non-trivial: every cell except those with neither AIA nor CRL.",
}

func TestMain(m *testing.M) {
	world.QuietCaddy()
	code := m.Run()
	world.Cleanup()
	os.Exit(code)
}

func TestTable(t *testing.T) {
	n := 1
	if ev.Thorough() {
		n = 5
	}
	var all []Cell
	for i := 0; i < n; i++ {
		all = append(all, cells(ev.Seed()*100+i, ev.Thorough())...)
	}
	ev.Enumerate(t, spec, all, true)
}

func TestReplay(t *testing.T) { ev.Replay(t, spec) }
