package world

import (
	"errors"
	"sync"

	"github.com/gr33nbl00d/caddy-revocation-validator/core"
	"github.com/gr33nbl00d/caddy-revocation-validator/crl/crlreader"
	"github.com/gr33nbl00d/caddy-revocation-validator/crl/crlstore"
)

// FaultPlan tells the wrapping factory which store call to fail.
// Counters are per plan (shared by all stores the factory creates).
type FaultPlan struct {
	mu sync.Mutex
	// FailCreateTemp > 0: the k-th creation of a temporary store fails.
	FailCreateTemp int
	// FailMethod/FailAt: the FailAt-th (1-based) call of the named method on a
	// *temporary* store fails ("StartUpdateCrl", "InsertRevokedCert",
	// "UpdateExtendedMetaInfo", "UpdateSignatureCertificate", "UpdateCRLLocations").
	FailMethod string
	FailAt     int
	// FailUpdate: Update (the swap) of a live store fails before touching anything.
	FailUpdate bool
	// OnWrite is called after every successful write on a temporary store.
	OnWrite func(method string, n int)

	createTemp int
	calls      map[string]int
	Fired      bool
}

// ErrInjected is the injected failure.
var ErrInjected = errors.New("injected storage fault")

func (p *FaultPlan) hit(method string, temp bool) error {
	if p == nil || !temp {
		return nil
	}
	p.mu.Lock()
	defer p.mu.Unlock()
	if p.calls == nil {
		p.calls = map[string]int{}
	}
	p.calls[method]++
	if p.FailMethod == method && p.calls[method] == p.FailAt {
		p.Fired = true
		return ErrInjected
	}
	return nil
}

func (p *FaultPlan) wrote(method string, temp bool) {
	if p == nil || !temp || p.OnWrite == nil {
		return
	}
	p.mu.Lock()
	n := p.calls[method]
	p.mu.Unlock()
	p.OnWrite(method, n)
}

// FaultFactory wraps a real factory.
type FaultFactory struct {
	Inner crlstore.Factory
	Plan  *FaultPlan
}

func (f FaultFactory) CreateStore(identifier string, temporary bool) (crlstore.CRLStore, error) {
	if temporary && f.Plan != nil {
		f.Plan.mu.Lock()
		f.Plan.createTemp++
		fail := f.Plan.FailCreateTemp > 0 && f.Plan.createTemp == f.Plan.FailCreateTemp
		if fail {
			f.Plan.Fired = true
		}
		f.Plan.mu.Unlock()
		if fail {
			return nil, ErrInjected
		}
	}
	st, err := f.Inner.CreateStore(identifier, temporary)
	if err != nil {
		return nil, err
	}
	return &FaultStore{CRLStore: st, plan: f.Plan, temp: temporary}, nil
}

// FaultStore forwards to the real store.
type FaultStore struct {
	crlstore.CRLStore
	plan *FaultPlan
	temp bool
}

func (s *FaultStore) InsertRevokedCert(e *crlreader.CRLEntry) error {
	if err := s.plan.hit("InsertRevokedCert", s.temp); err != nil {
		return err
	}
	err := s.CRLStore.InsertRevokedCert(e)
	if err == nil {
		s.plan.wrote("InsertRevokedCert", s.temp)
	}
	return err
}
func (s *FaultStore) StartUpdateCrl(i *crlreader.CRLMetaInfo) error {
	if err := s.plan.hit("StartUpdateCrl", s.temp); err != nil {
		return err
	}
	err := s.CRLStore.StartUpdateCrl(i)
	if err == nil {
		s.plan.wrote("StartUpdateCrl", s.temp)
	}
	return err
}
func (s *FaultStore) UpdateExtendedMetaInfo(i *crlreader.ExtendedCRLMetaInfo) error {
	if err := s.plan.hit("UpdateExtendedMetaInfo", s.temp); err != nil {
		return err
	}
	err := s.CRLStore.UpdateExtendedMetaInfo(i)
	if err == nil {
		s.plan.wrote("UpdateExtendedMetaInfo", s.temp)
	}
	return err
}
func (s *FaultStore) UpdateSignatureCertificate(e *core.CertificateChainEntry) error {
	if err := s.plan.hit("UpdateSignatureCertificate", s.temp); err != nil {
		return err
	}
	err := s.CRLStore.UpdateSignatureCertificate(e)
	if err == nil {
		s.plan.wrote("UpdateSignatureCertificate", s.temp)
	}
	return err
}
func (s *FaultStore) UpdateCRLLocations(l *core.CRLLocations) error {
	if err := s.plan.hit("UpdateCRLLocations", s.temp); err != nil {
		return err
	}
	err := s.CRLStore.UpdateCRLLocations(l)
	if err == nil {
		s.plan.wrote("UpdateCRLLocations", s.temp)
	}
	return err
}

// Update unwraps the argument so the real stores' type assertions hold.
func (s *FaultStore) Update(n crlstore.CRLStore) error {
	if s.plan != nil {
		s.plan.mu.Lock()
		fail := s.plan.FailUpdate
		if fail {
			s.plan.Fired = true
		}
		s.plan.mu.Unlock()
		if fail {
			return ErrInjected
		}
	}
	if fs, ok := n.(*FaultStore); ok {
		n = fs.CRLStore
	}
	return s.CRLStore.Update(n)
}

// Unwrap returns the real store.
func (s *FaultStore) Unwrap() crlstore.CRLStore { return s.CRLStore }
