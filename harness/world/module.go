package world

import (
	"context"
	"encoding/json"
	"fmt"
	"os"
	"sync"
	"time"

	"github.com/caddyserver/caddy/v2"
	"github.com/caddyserver/caddy/v2/caddyconfig/caddyfile"
	"github.com/caddyserver/caddy/v2/modules/caddytls"
	revocation "github.com/gr33nbl00d/caddy-revocation-validator"
)

var quietOnce sync.Once

// QuietCaddy sends caddy's default logger (stderr) to /dev/null unless VERIF_NOISY is set. Call from TestMain.
func QuietCaddy() {
	quietOnce.Do(func() {
		if os.Getenv("VERIF_NOISY") != "" {
			return
		}
		if f, err := os.OpenFile(os.DevNull, os.O_WRONLY, 0); err == nil {
			os.Stderr = f
		}
	})
}

// Validator is a provisioned module instance.
type Validator struct {
	V      *revocation.CertRevocationValidator
	cancel context.CancelFunc
}

// Close cancels the caddy context, which runs the module's Cleanup exactly like a config unload does.
func (v *Validator) Close() {
	if v != nil && v.cancel != nil {
		v.cancel()
		v.cancel = nil
	}
}

// LoadValidatorJSON loads the module the way caddy does from a JSON config: strict decoding + Provision.
func LoadValidatorJSON(cfg json.RawMessage) (*Validator, error) {
	return LoadValidatorJSONWithin(cfg, DefaultWatchdog)
}

// LoadValidatorJSONWithin is LoadValidatorJSON with an explicit watchdog (provisioning a million-entry list takes long).
func LoadValidatorJSONWithin(cfg json.RawMessage, wdog time.Duration) (*Validator, error) {
	type res struct {
		v   *Validator
		err error
	}
	r, werr := Call("LoadModuleByID", wdog, func() res {
		ctx, cancel := caddy.NewContext(caddy.Context{Context: context.Background()})
		m, err := ctx.LoadModuleByID("tls.client_auth.verifier.revocation", cfg)
		if err != nil {
			cancel()
			return res{nil, err}
		}
		return res{&Validator{V: m.(*revocation.CertRevocationValidator), cancel: cancel}, nil}
	})
	if werr != nil {
		return nil, werr
	}
	return r.v, r.err
}

// AdaptCaddyfile runs a `client_auth { ... verifier revocation { <body> } }` block through caddy's own
// Caddyfile adapter path for TLS client authentication and returns the JSON of the verifier module.
func AdaptCaddyfile(verifierBody string) (json.RawMessage, error) {
	src := "client_auth {\n  mode require_and_verify\n  verifier revocation {\n" + verifierBody + "\n  }\n}"
	d := caddyfile.NewTestDispenser(src)
	ca := &caddytls.ClientAuthentication{}
	if !d.Next() {
		return nil, fmt.Errorf("empty caddyfile")
	}
	if err := ca.UnmarshalCaddyfile(d); err != nil {
		return nil, err
	}
	if len(ca.VerifiersRaw) != 1 {
		return nil, fmt.Errorf("adapter produced %d verifiers", len(ca.VerifiersRaw))
	}
	// VerifiersRaw carries {"verifier":"revocation", ...}; the module itself is loaded from the object without the name key
	var m map[string]json.RawMessage
	if err := json.Unmarshal(ca.VerifiersRaw[0], &m); err != nil {
		return nil, err
	}
	delete(m, "verifier")
	return json.Marshal(m)
}
