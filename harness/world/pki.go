package world

import (
	"crypto/x509"
	"fmt"

	"verifharness/gen"
)

// SimplePKI is root -> (optional intermediate) -> leaves, with helpers to issue
// probe leaves and CRLs.
type SimplePKI struct {
	Root  *gen.Cert
	Inter *gen.Cert // nil for depth 1
	// Form of the lists CRL() builds: "" v2 with cRLNumber | "nonumber" v2 without cRLNumber | "v1" version 1, no extensions
	Form string
}

// NewSimplePKI builds a PKI. name distinguishes issuers between cases.
func NewSimplePKI(name, rootKey, interKey string) *SimplePKI {
	p := &SimplePKI{}
	p.Root = gen.Issue(gen.CertSpec{Key: rootKey, Subject: gen.NameSpec{{{T: "O", V: "verif"}}, {{T: "CN", V: name + " root"}}}, SerialHex: "01", IsCA: true}, nil)
	if interKey != "" {
		p.Inter = gen.Issue(gen.CertSpec{Key: interKey, Subject: gen.NameSpec{{{T: "O", V: "verif"}}, {{T: "CN", V: name + " inter"}}}, SerialHex: "02", IsCA: true}, p.Root)
	}
	return p
}

// Issuer is the CA that issues leaves and CRLs.
func (p *SimplePKI) Issuer() *gen.Cert {
	if p.Inter != nil {
		return p.Inter
	}
	return p.Root
}

// Leaf issues an end-entity certificate.
func (p *SimplePKI) Leaf(serialHex string, cdp, ocsp []string) *gen.Cert {
	return gen.Issue(gen.CertSpec{Key: "p256f", Subject: gen.CN("client " + serialHex), SerialHex: serialHex, CDP: cdp, OCSP: ocsp}, p.Issuer())
}

// ChainFor returns the verified chain(s) for a leaf.
func (p *SimplePKI) ChainFor(leaf *gen.Cert) [][]*x509.Certificate {
	ch := []*x509.Certificate{leaf.Cert}
	if p.Inter != nil {
		ch = append(ch, p.Inter.Cert)
	}
	ch = append(ch, p.Root.Cert)
	return [][]*x509.Certificate{ch}
}

// CRL builds a v2 CRL of the issuing CA listing the serials.
func (p *SimplePKI) CRL(number int, serials ...string) []byte {
	return CRLForm(p.Issuer(), number, p.Form, serials...)
}

// CRLFor builds a v2 CRL signed by ca listing serials (hex magnitudes).
func CRLFor(ca *gen.Cert, number int, serials ...string) []byte {
	return CRLForm(ca, number, "", serials...)
}

// CRLForm is CRLFor with the list form of SimplePKI.Form (number still moves thisUpdate forward).
func CRLForm(ca *gen.Cert, number int, form string, serials ...string) []byte {
	s := gen.CRLSpec{Version: 1, IssuerDER: ca.Cert.RawSubject, ThisUpdate: 1700000000 + int64(number), NextUpdate: 1900000000,
		HasExts: true, Exts: []gen.Ext{gen.CRLNumberExt([]byte{byte(number >> 8), byte(number)})}}
	s.SigAlg = gen.CompatibleAlgs(ca.Key)[2]
	if ext, ok := gen.AKIExtension("keyid", ca.Cert); ok {
		s.Exts = append(s.Exts, gen.Ext{OID: gen.OIDAKI, Value: ext.Value})
	}
	for i, h := range serials {
		s.Entries = append(s.Entries, gen.Entry{SerialHex: h, Date: 1690000000 + int64(i)})
	}
	switch form {
	case "nonumber":
		s.Exts = s.Exts[1:]
		s.HasExts = len(s.Exts) > 0
	case "v1":
		s.Version, s.HasExts, s.Exts = -1, false, nil
	}
	der, err := s.Build(ca.Key)
	if err != nil {
		panic(fmt.Sprintf("CRLFor: %v", err))
	}
	return der
}

// CDPWorld is one CRL distribution point served by an origin, with probe
// certificates naming it.
type CDPWorld struct {
	Origin *Origin
	PKI    *SimplePKI
	Path   string
	Number int
	probes map[string][][]*x509.Certificate
}

// NewCDPWorld creates a distribution point at path on the origin.
func NewCDPWorld(o *Origin, pki *SimplePKI, path string) *CDPWorld {
	return &CDPWorld{Origin: o, PKI: pki, Path: path, probes: map[string][][]*x509.Certificate{}}
}

// URL is the distribution point URL.
func (w *CDPWorld) URL() string { return w.Origin.URL(w.Path) }

// Publish signs and serves a new CRL listing serials; returns its DER.
func (w *CDPWorld) Publish(serials ...string) []byte {
	w.Number++
	der := w.PKI.CRL(w.Number, serials...)
	w.Origin.Serve(w.Path, der)
	return der
}

// Probe returns the verified chains of a leaf with the given serial naming this CDP.
func (w *CDPWorld) Probe(serialHex string) [][]*x509.Certificate {
	if ch, ok := w.probes[serialHex]; ok {
		return ch
	}
	leaf := w.PKI.Leaf(serialHex, []string{w.URL()}, nil)
	ch := w.PKI.ChainFor(leaf)
	w.probes[serialHex] = ch
	return ch
}
