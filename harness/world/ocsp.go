package world

import (
	"crypto/x509"
	"encoding/hex"
	"fmt"
	"math/big"
	"net/http"
	"net/http/httptest"
	"strings"
	"sync"
	"time"

	"verifharness/gen"

	"github.com/gr33nbl00d/caddy-revocation-validator/config"
	ocspchk "github.com/gr33nbl00d/caddy-revocation-validator/ocsp"
	"golang.org/x/crypto/ocsp"
)

// OCSPAnswer scripts one responder.
type OCSPAnswer struct {
	// Kind: good | revoked | unknown | http500 | garbage | html | empty |
	//       trylater | unauthorized | internal | malformed | sigrequired
	Kind string `json:"kind"`
	// Signer: issuer (default) | delegated (issuer-signed, EKU OCSPSigning) | delegated-big | mimic | delegated-noeku |
	//         delegated-clientauth | client (the client certificate itself, embedded) | client-bare (client key, nothing embedded) |
	//         stranger-embedded | stranger | sibling
	Signer string `json:"signer,omitempty"`
	// Serial: this (default) | other | both (two single responses: other first, this second is not expressible
	// with x/crypto/ocsp's builder, so "both" = other only with this serial appended in a second response is skipped)
	Serial string `json:"serial,omitempty"`
	// NextUpdate: "" absent | past | future
	NextUpdate string `json:"next_update,omitempty"`
	// RevokedAtFuture: a revoked answer carries a revocationTime a few hours ahead of the local clock (clock skew
	// between the CA and this host, or a CA that dates revocations ahead)
	RevokedAtFuture bool `json:"revoked_at_future,omitempty"`
}

// OCSPParties are the certificates a responder can sign with.
type OCSPParties struct {
	Issuer       *gen.Cert
	Leaf         *gen.Cert
	Delegated    *gen.Cert // issued by Issuer with EKU OCSPSigning
	NoEKU        *gen.Cert // issued by Issuer without any EKU
	ClientEKU    *gen.Cert // issued by Issuer with EKU clientAuth
	AnyEKU       *gen.Cert // issued by Issuer with EKU clientAuth + anyExtendedKeyUsage (not authorised for OCSP signing: RFC 6960 4.2.2.2 asks for id-kp-OCSPSigning itself)
	DelegatedBig *gen.Cert // issuer-signed, EKU OCSPSigning, RSA-3072 key and a long subject: responses exceed 3 KiB
	Mimic        *gen.Cert // self-signed stranger that copies the issuer's subject and subject key identifier
	Stranger     *gen.Cert // self-signed, unrelated
	Sibling      *gen.Cert // self-signed CA with the issuer's NAME and another key
}

// NewOCSPParties creates the signer certificates around an issuer and a leaf.
func NewOCSPParties(name string, issuer, leaf *gen.Cert) *OCSPParties {
	p := &OCSPParties{Issuer: issuer, Leaf: leaf}
	p.Delegated = gen.Issue(gen.CertSpec{Key: "p256c", Subject: gen.CN(name + " ocsp responder"), SerialHex: "7001", OCSPSigner: true, KeyUsage: "ds"}, issuer)
	p.DelegatedBig = gen.Issue(gen.CertSpec{Key: "rsa3072", Subject: gen.NameSpec{{{T: "O", V: "verif"}}, {{T: "OU", V: strings.Repeat("responder unit ", 70)}}, {{T: "CN", V: name + " big ocsp responder"}}}, SerialHex: "7005", OCSPSigner: true, KeyUsage: "ds"}, issuer)
	p.Mimic = gen.Issue(gen.CertSpec{Key: "p224", Subject: issuer.Spec.Subject, SerialHex: issuer.Spec.SerialHex, IsCA: true, SKIHex: hex.EncodeToString(issuer.Cert.SubjectKeyId)}, nil)
	p.NoEKU = gen.Issue(gen.CertSpec{Key: "p256d", Subject: gen.CN(name + " noeku"), SerialHex: "7002", NoEKU: true, KeyUsage: "ds"}, issuer)
	p.ClientEKU = gen.Issue(gen.CertSpec{Key: "p256d", Subject: gen.CN(name + " other client"), SerialHex: "7003", KeyUsage: "ds"}, issuer)
	p.AnyEKU = gen.Issue(gen.CertSpec{Key: "p256d", Subject: gen.CN(name + " any usage"), SerialHex: "7006", KeyUsage: "ds", AnyEKU: true}, issuer)
	p.Stranger = gen.Issue(gen.CertSpec{Key: "p521", Subject: gen.CN(name + " stranger"), SerialHex: "7004", IsCA: true}, nil)
	p.Sibling = gen.Issue(gen.CertSpec{Key: "p256e", Subject: issuer.Spec.Subject, SerialHex: issuer.Spec.SerialHex, IsCA: true}, nil)
	return p
}

// Authentic reports whether an answer is an authentic answer for the leaf in the sense of the property:
// successful response, signed by the issuer or by an issuer-signed responder with the OCSP signing usage,
// containing a status for exactly the leaf's serial.
func (a OCSPAnswer) Authentic() bool {
	switch a.Kind {
	case "good", "revoked", "unknown":
	default:
		return false
	}
	if a.Serial != "" && a.Serial != "this" {
		return false
	}
	return a.Signer == "" || a.Signer == "issuer" || a.Signer == "delegated" || a.Signer == "delegated-big"
}

// Build creates the response bytes for a request about serial.
func (p *OCSPParties) Build(a OCSPAnswer, serial *big.Int) (body []byte, status int, contentType string) {
	contentType = "application/ocsp-response"
	switch a.Kind {
	case "http500":
		return []byte("internal server error"), 500, "text/plain"
	case "garbage":
		return []byte{0x30, 0x03, 0x0a, 0x01, 0x00, 0xff, 0xfe, 0x00, 0x42}, 200, contentType
	case "html":
		return []byte("<html><body>Please log in to the captive portal</body></html>"), 200, "text/html"
	case "empty":
		return []byte{}, 200, contentType
	case "trylater":
		return ocsp.TryLaterErrorResponse, 200, contentType
	case "unauthorized":
		return ocsp.UnauthorizedErrorResponse, 200, contentType
	case "internal":
		return ocsp.InternalErrorErrorResponse, 200, contentType
	case "malformed":
		return ocsp.MalformedRequestErrorResponse, 200, contentType
	case "sigrequired":
		return ocsp.SigRequredErrorResponse, 200, contentType
	}
	tpl := ocsp.Response{SerialNumber: serial, ThisUpdate: time.Now().Add(-time.Minute)}
	switch a.Kind {
	case "good":
		tpl.Status = ocsp.Good
	case "revoked":
		tpl.Status = ocsp.Revoked
		tpl.RevokedAt = time.Now().Add(-time.Hour)
		if a.RevokedAtFuture {
			tpl.RevokedAt = time.Now().Add(3 * time.Hour)
		}
		tpl.RevocationReason = ocsp.KeyCompromise
	case "unknown":
		tpl.Status = ocsp.Unknown
	default:
		panic("bad ocsp answer kind " + a.Kind)
	}
	switch a.NextUpdate {
	case "past":
		tpl.NextUpdate = time.Now().Add(-30 * time.Second)
	case "future":
		tpl.NextUpdate = time.Now().Add(time.Hour)
	}
	if a.Serial == "other" {
		tpl.SerialNumber = new(big.Int).Add(serial, big.NewInt(1))
	}
	issuerCert := p.Issuer.Cert
	var responder *gen.Cert
	switch a.Signer {
	case "", "issuer":
		responder = p.Issuer
	case "delegated":
		responder, tpl.Certificate = p.Delegated, p.Delegated.Cert
	case "delegated-big":
		responder, tpl.Certificate = p.DelegatedBig, p.DelegatedBig.Cert
	case "mimic":
		responder, tpl.Certificate = p.Mimic, p.Mimic.Cert
	case "delegated-noeku":
		responder, tpl.Certificate = p.NoEKU, p.NoEKU.Cert
	case "delegated-clientauth":
		responder, tpl.Certificate = p.ClientEKU, p.ClientEKU.Cert
	case "delegated-anyeku":
		responder, tpl.Certificate = p.AnyEKU, p.AnyEKU.Cert
	case "client":
		responder, tpl.Certificate = p.Leaf, p.Leaf.Cert
	case "client-bare": // signed with the client's own key, no embedded certificate
		responder = p.Leaf
	case "stranger-embedded":
		responder, tpl.Certificate = p.Stranger, p.Stranger.Cert
	case "stranger":
		responder = p.Stranger
	case "sibling":
		responder = p.Sibling
	default:
		panic("bad ocsp signer " + a.Signer)
	}
	der, err := ocsp.CreateResponse(issuerCert, responder.Cert, tpl, responder.Key.Signer)
	if err != nil {
		panic(fmt.Sprintf("ocsp.CreateResponse: %v", err))
	}
	return der, 200, contentType
}

// Responder serves scripted answers on an origin path.
type Responder struct {
	mu      sync.Mutex
	answer  OCSPAnswer
	parties *OCSPParties
	Mutate  func([]byte) []byte
	reqs    int
	bad     int
}

// Set changes the scripted answer.
func (r *Responder) Set(a OCSPAnswer) {
	r.mu.Lock()
	r.answer = a
	r.mu.Unlock()
}

// Requests returns how many well-formed OCSP requests were received.
func (r *Responder) Requests() int {
	r.mu.Lock()
	defer r.mu.Unlock()
	return r.reqs
}

// Handler returns the origin handler.
func (r *Responder) Handler() Handler {
	return func(w http.ResponseWriter, req *http.Request, body []byte, n int) {
		r.mu.Lock()
		a := r.answer
		mut := r.Mutate
		r.reqs++
		r.mu.Unlock()
		serial := r.parties.Leaf.Cert.SerialNumber
		if pr, err := ocsp.ParseRequest(body); err == nil {
			serial = pr.SerialNumber
		} else {
			r.mu.Lock()
			r.bad++
			r.mu.Unlock()
		}
		b, status, ct := r.parties.Build(a, serial)
		if mut != nil {
			b = mut(b)
		}
		w.Header().Set("Content-Type", ct)
		w.WriteHeader(status)
		w.Write(b)
	}
}

// NewResponder registers a responder on the origin.
func NewResponder(o *Origin, path string, parties *OCSPParties, a OCSPAnswer) *Responder {
	r := &Responder{answer: a, parties: parties}
	o.Set(path, r.Handler())
	return r
}

var (
	tlsOnce sync.Once
	tlsURL  string
)

// UntrustedTLSURL returns the URL of a process-wide HTTPS server with a certificate nobody trusts (the client's
// TLS handshake fails) and a no-op closer.
func UntrustedTLSURL() (string, func()) {
	tlsOnce.Do(func() {
		s := httptest.NewTLSServer(http.HandlerFunc(func(w http.ResponseWriter, r *http.Request) { w.WriteHeader(200) }))
		tlsURL = s.URL + "/ocsp"
	})
	return tlsURL, func() {}
}

// OCSPOpts configures an OCSP checker.
type OCSPOpts struct {
	Strict  bool
	Cache   time.Duration
	Trusted []*x509.Certificate
}

// NewOCSPChecker provisions an OCSP checker.
func NewOCSPChecker(o OCSPOpts) *ocspchk.OCSPRevocationChecker {
	c := &ocspchk.OCSPRevocationChecker{}
	cfg := &config.OCSPConfig{OCSPAIAStrict: o.Strict, DefaultCacheDurationParsed: o.Cache, TrustedResponderCerts: o.Trusted}
	if cfg.TrustedResponderCerts == nil {
		cfg.TrustedResponderCerts = []*x509.Certificate{}
	}
	if o.Cache > 0 {
		cfg.DefaultCacheDuration = o.Cache.String()
	}
	if err := c.Provision(cfg, Logger()); err != nil {
		panic(err)
	}
	return c
}
