// Package world builds the environment the plugin runs in: a scriptable HTTP
// origin for CRLs and OCSP, checker/validator constructors, a fault-injecting
// store factory, a watchdog and scratch directories.
package world

import (
	"crypto/x509"
	"fmt"
	"io"
	"net"
	"net/http"
	"net/http/httptest"
	"os"
	"path/filepath"
	"runtime"
	"strings"
	"sync"
	"sync/atomic"
	"time"

	"github.com/gr33nbl00d/caddy-revocation-validator/config"
	"github.com/gr33nbl00d/caddy-revocation-validator/core"
	"github.com/gr33nbl00d/caddy-revocation-validator/crl"
	"go.uber.org/zap"
	"go.uber.org/zap/zapcore"
)

// ---------------------------------------------------------------- scratch

var (
	scratchOnce sync.Once
	scratchBase string
	scratchSeq  atomic.Int64
)

// ScratchBase returns the per-process scratch directory.
func ScratchBase() string {
	scratchOnce.Do(func() {
		d, err := os.MkdirTemp("", fmt.Sprintf("verif-%d-", os.Getpid()))
		if err != nil {
			panic(err)
		}
		scratchBase = d
	})
	return scratchBase
}

// NewDir creates a fresh directory under the scratch base.
func NewDir(prefix string) string {
	d := filepath.Join(ScratchBase(), fmt.Sprintf("%s-%d", prefix, scratchSeq.Add(1)))
	if err := os.MkdirAll(d, 0o755); err != nil {
		panic(err)
	}
	return d
}

// Cleanup removes the scratch base (call from TestMain).
func Cleanup() {
	if scratchBase != "" {
		os.RemoveAll(scratchBase)
	}
}

// ---------------------------------------------------------------- watchdog

// ErrHang is returned by Call when f did not return in time.
type ErrHang struct {
	What  string
	After time.Duration
	Dump  string
}

func (e *ErrHang) Error() string {
	return fmt.Sprintf("%s did not return within %v\n%s", e.What, e.After, e.Dump)
}

// Call runs f under a watchdog.
func Call[T any](what string, d time.Duration, f func() T) (T, error) {
	ch := make(chan T, 1)
	pc := make(chan any, 1)
	go func() {
		defer func() {
			if r := recover(); r != nil {
				buf := make([]byte, 1<<14)
				buf = buf[:runtime.Stack(buf, false)]
				pc <- fmt.Sprintf("%v\n%s", r, buf)
			}
		}()
		ch <- f()
	}()
	select {
	case v := <-ch:
		return v, nil
	case p := <-pc:
		var zero T
		return zero, fmt.Errorf("%s panicked: %v", what, p)
	case <-time.After(d):
		buf := make([]byte, 1<<16)
		buf = buf[:runtime.Stack(buf, true)]
		var zero T
		return zero, &ErrHang{What: what, After: d, Dump: trimDump(string(buf))}
	}
}

func trimDump(s string) string {
	// keep only goroutines inside the repository
	var keep []string
	for _, g := range strings.Split(s, "\n\n") {
		if strings.Contains(g, "caddy-revocation-validator") {
			keep = append(keep, g)
		}
	}
	out := strings.Join(keep, "\n\n")
	if len(out) > 6000 {
		out = out[:6000]
	}
	return out
}

// DefaultWatchdog is generous: legitimate worst case is 5 loader retries x 0.5 s.
const DefaultWatchdog = 25 * time.Second

// ---------------------------------------------------------------- origin

// Hit is one logged request.
type Hit struct {
	Seq    int64
	Path   string
	Method string
	Body   []byte
}

// Handler serves one request for a scripted resource; n is the 1-based hit count of the path.
type Handler func(w http.ResponseWriter, r *http.Request, body []byte, n int)

// server is one real HTTP server shared by all origins of the process. Sharing keeps the number of TCP
// connections (and sockets in TIME_WAIT) small: the plugin's HTTP clients reuse their keep-alive connections
// across cases, so campaigns of tens of thousands of cases do not exhaust the ephemeral port range.
type server struct {
	srv *httptest.Server
	mu  sync.Mutex
	org map[string]*Origin // by prefix
}

var (
	serversOnce sync.Once
	servers     [2]*server
	originSeq   atomic.Int64
)

func getServer(i int) *server {
	serversOnce.Do(func() {
		for k := range servers {
			sv := &server{org: map[string]*Origin{}}
			sv.srv = httptest.NewServer(http.HandlerFunc(sv.serve))
			servers[k] = sv
		}
	})
	return servers[i]
}

func (sv *server) serve(w http.ResponseWriter, r *http.Request) {
	p := r.URL.Path
	var o *Origin
	if len(p) > 1 {
		if j := strings.Index(p[1:], "/"); j >= 0 {
			sv.mu.Lock()
			o = sv.org[p[:j+1]]
			sv.mu.Unlock()
			p = p[j+1:]
		}
	}
	if o == nil {
		http.Error(w, "no such origin", 404)
		return
	}
	o.serve(w, r, p)
}

// Origin is a scriptable HTTP origin: a path namespace on one of the two shared servers of the process.
type Origin struct {
	sv     *server
	prefix string
	mu     sync.Mutex
	res    map[string]Handler
	hits   []Hit
	cnt    map[string]int
	seq    atomic.Int64
	closed bool
}

func newOrigin(i int) *Origin {
	sv := getServer(i)
	o := &Origin{sv: sv, prefix: fmt.Sprintf("/o%d", originSeq.Add(1)), res: map[string]Handler{}, cnt: map[string]int{}}
	sv.mu.Lock()
	sv.org[o.prefix] = o
	sv.mu.Unlock()
	return o
}

// NewOrigin creates an origin on the first shared server.
func NewOrigin() *Origin { return newOrigin(0) }

// NewOriginAlt creates an origin on the second shared server (same host name, another port).
func NewOriginAlt() *Origin { return newOrigin(1) }

// SamePrefixOn returns an origin on the second shared server that uses the SAME path prefix as o, so that URLs
// of the two differ in nothing but the port.
func (o *Origin) SamePrefixOn() *Origin {
	sv := getServer(1)
	t := &Origin{sv: sv, prefix: o.prefix, res: map[string]Handler{}, cnt: map[string]int{}}
	sv.mu.Lock()
	sv.org[t.prefix] = t
	sv.mu.Unlock()
	return t
}

func (o *Origin) serve(w http.ResponseWriter, r *http.Request, path string) {
	body, _ := io.ReadAll(r.Body)
	o.mu.Lock()
	if o.closed {
		o.mu.Unlock()
		http.Error(w, "origin gone", 404)
		return
	}
	key := path
	if r.URL.RawQuery != "" {
		if _, ok := o.res[key+"?"+r.URL.RawQuery]; ok {
			key = key + "?" + r.URL.RawQuery // resources may be registered with their query string
		}
	}
	o.cnt[key]++
	n := o.cnt[key]
	o.hits = append(o.hits, Hit{Seq: o.seq.Add(1), Path: key, Method: r.Method, Body: body})
	h := o.res[key]
	o.mu.Unlock()
	if h == nil {
		http.Error(w, "no such resource", 404)
		return
	}
	h(w, r, body, n)
}

// URL returns the absolute URL of a path ("/x").
func (o *Origin) URL(path string) string { return o.sv.srv.URL + o.prefix + path }

// Host returns host:port.
func (o *Origin) Host() string { return strings.TrimPrefix(o.sv.srv.URL, "http://") }

// Set installs a handler for a path.
func (o *Origin) Set(path string, h Handler) {
	o.mu.Lock()
	o.res[path] = h
	o.mu.Unlock()
}

// Serve makes the path answer 200 with body.
func (o *Origin) Serve(path string, body []byte) {
	o.Set(path, func(w http.ResponseWriter, r *http.Request, _ []byte, _ int) { w.Write(body) })
}

// Status makes the path answer with a status code and a text body.
func (o *Origin) Status(path string, code int, body string) {
	o.Set(path, func(w http.ResponseWriter, r *http.Request, _ []byte, _ int) {
		w.Header().Set("Content-Type", "text/html")
		w.WriteHeader(code)
		io.WriteString(w, body)
	})
}

// Abort makes the path drop the connection without answering (transport error
// for the client; the loader retries 5 x 0.5 s, so use sparingly).
func (o *Origin) Abort(path string) {
	o.Set(path, func(w http.ResponseWriter, r *http.Request, _ []byte, _ int) {
		if hj, ok := w.(http.Hijacker); ok {
			c, _, _ := hj.Hijack()
			c.Close()
		}
	})
}

// AbortMidBody makes the path send headers and half of body, then reset the connection (the client sees a
// transport error while streaming the body; the URL loader retries 5 x 0.5 s).
func (o *Origin) AbortMidBody(path string, body []byte) {
	o.Set(path, func(w http.ResponseWriter, r *http.Request, _ []byte, _ int) {
		w.Header().Set("Content-Length", fmt.Sprint(len(body)))
		w.WriteHeader(200)
		w.Write(body[:len(body)/2])
		if f, ok := w.(http.Flusher); ok {
			f.Flush()
		}
		if hj, ok := w.(http.Hijacker); ok {
			c, _, _ := hj.Hijack()
			c.Close()
		}
	})
}

// Hits returns the number of requests a path received.
func (o *Origin) Hits(path string) int {
	o.mu.Lock()
	defer o.mu.Unlock()
	return o.cnt[path]
}

// TotalHits returns the number of requests this origin received.
func (o *Origin) TotalHits() int {
	o.mu.Lock()
	defer o.mu.Unlock()
	return len(o.hits)
}

// Log returns a copy of the hit log.
func (o *Origin) Log() []Hit {
	o.mu.Lock()
	defer o.mu.Unlock()
	return append([]Hit(nil), o.hits...)
}

// Close retires the origin: its paths answer 404 from now on (the shared server keeps running).
func (o *Origin) Close() {
	o.mu.Lock()
	o.closed = true
	o.mu.Unlock()
	o.sv.mu.Lock()
	if o.sv.org[o.prefix] == o {
		delete(o.sv.org, o.prefix)
	}
	o.sv.mu.Unlock()
}

var (
	deadOnce sync.Once
	deadAddr string
)

// RefusedURL returns an http URL whose endpoint never answers a request: a process-wide listener accepts the
// connection and closes it at once (transport error for the client, like a refused or reset connection). A port
// "nobody listens on" is not used because a later server of the same process could be given that very port.
func RefusedURL(path string) string {
	deadOnce.Do(func() {
		l, err := net.Listen("tcp", "127.0.0.1:0")
		if err != nil {
			panic(err)
		}
		deadAddr = l.Addr().String()
		go func() {
			for {
				c, err := l.Accept()
				if err != nil {
					return
				}
				c.Close()
			}
		}()
	})
	return "http://" + deadAddr + path
}

// ---------------------------------------------------------------- checker

// CRLOpts configures a CRL checker.
type CRLOpts struct {
	WorkDir    string
	Disk       bool
	Sig        string // "verify" (default), "verify_log", "none"
	Background bool
	Strict     bool
	Interval   time.Duration
	Trusted    []*x509.Certificate
	URLs       []string
	Files      []string
	NoSettle   bool
	Watchdog   time.Duration // for Provision (default DefaultWatchdog)
	// OmitDefaults: options whose value is the documented default are rendered as if they had been omitted
	OmitDefaults bool
	// DebugLog: the code under test gets a logger with DEBUG enabled (its output is discarded)
	DebugLog bool
}

// Config renders the options as the parsed config struct.
func (o CRLOpts) Config() *config.CRLConfig {
	cfg := &config.CRLConfig{WorkDir: o.WorkDir, CRLUrls: o.URLs, CRLFiles: o.Files,
		TrustedSignatureCerts: o.Trusted, UpdateIntervalParsed: o.Interval,
		CDPConfig: &config.CDPConfig{CRLCDPStrict: o.Strict}}
	if cfg.TrustedSignatureCerts == nil {
		cfg.TrustedSignatureCerts = []*x509.Certificate{}
	}
	if cfg.UpdateIntervalParsed == 0 {
		cfg.UpdateIntervalParsed = time.Hour
	}
	// the raw option strings are set as well, exactly as the JSON/Caddyfile path leaves them
	cfg.SignatureValidationMode = o.Sig
	cfg.UpdateInterval = cfg.UpdateIntervalParsed.String()
	if o.Disk {
		cfg.StorageTypeParsed = config.Disk
		cfg.StorageType = "disk"
	} else {
		cfg.StorageTypeParsed = config.Memory
		cfg.StorageType = "memory"
	}
	if o.Background {
		cfg.CDPConfig.CRLFetchMode = "fetch_background"
	} else {
		cfg.CDPConfig.CRLFetchMode = "fetch_actively"
	}
	switch o.Sig {
	case "", "verify":
		cfg.SignatureValidationModeParsed = config.SignatureValidationModeVerify
	case "verify_log":
		cfg.SignatureValidationModeParsed = config.SignatureValidationModeVerifyLog
	case "none":
		cfg.SignatureValidationModeParsed = config.SignatureValidationModeNone
	default:
		panic("bad sig mode " + o.Sig)
	}
	if o.Background {
		cfg.CDPConfig.CRLFetchModeParsed = config.CRLFetchModeBackground
	}
	if o.OmitDefaults {
		// as if the options whose value is the documented default had been left out of the configuration: the parser
		// leaves their raw strings empty and fills in the parsed values only
		if o.Disk {
			cfg.StorageType = ""
		}
		if !o.Background {
			cfg.CDPConfig.CRLFetchMode = ""
		}
		if o.Sig == "verify" {
			cfg.SignatureValidationMode = ""
		}
	}
	return cfg
}

// DebugDiscardLogger returns a logger on which every level is enabled and whose output goes nowhere: code that does
// extra work only "when debug logging is on" does that work.
func DebugDiscardLogger() *zap.Logger {
	enc := zapcore.NewJSONEncoder(zap.NewProductionEncoderConfig())
	return zap.New(zapcore.NewCore(enc, zapcore.AddSync(io.Discard), zapcore.DebugLevel))
}

// Logger returns the logger used for code under test (nop unless VERIF_NOISY).
func Logger() *zap.Logger {
	if os.Getenv("VERIF_NOISY") != "" {
		l, _ := zap.NewDevelopment()
		return l
	}
	return zap.NewNop()
}

// NewChecker provisions a CRL checker under a watchdog.
func NewChecker(o CRLOpts) (*crl.CRLRevocationChecker, error) {
	c := &crl.CRLRevocationChecker{}
	type res struct{ err error }
	wdog := o.Watchdog
	if wdog == 0 {
		wdog = DefaultWatchdog
	}
	lg := Logger()
	if o.DebugLog {
		lg = DebugDiscardLogger()
	}
	r, werr := Call("CRLRevocationChecker.Provision", wdog, func() res { return res{c.Provision(o.Config(), lg)} })
	if werr != nil {
		return nil, werr
	}
	if r.err != nil {
		// like caddy's LoadModule: a module whose Provision failed is cleaned up
		Call("Cleanup after failed Provision", DefaultWatchdog, func() int { c.Cleanup(); return 0 })
		return nil, r.err
	}
	if !o.NoSettle {
		// Provision starts a goroutine that runs one refresh right away. Running a tick here
		// makes that asynchronous first refresh a no-op ("recently finished"), so the start of a
		// history is deterministic. Checks about the ticker itself (C15) set NoSettle.
		Call("settle tick", DefaultWatchdog, func() int { c.VerifTick(); return 0 })
	}
	return c, nil
}

// Verdict is the observable outcome of a revocation lookup.
type Verdict struct {
	Kind string // "ok", "revoked", "error", "hang"
	Err  string
}

func (v Verdict) String() string {
	if v.Err != "" {
		return v.Kind + "(" + v.Err + ")"
	}
	return v.Kind
}

// Checker is anything with IsRevoked.
type Checker interface {
	IsRevoked(clientCertificate *x509.Certificate, verifiedChains [][]*x509.Certificate) (*core.RevocationStatus, error)
}

// Ask performs a lookup under the watchdog.
func Ask(c Checker, chains [][]*x509.Certificate) Verdict {
	v, err := Call("IsRevoked", DefaultWatchdog, func() Verdict {
		st, err := c.IsRevoked(chains[0][0], chains)
		if err != nil {
			return Verdict{Kind: "error", Err: err.Error()}
		}
		if st == nil {
			return Verdict{Kind: "error", Err: "nil status without error"}
		}
		if st.Revoked {
			return Verdict{Kind: "revoked"}
		}
		return Verdict{Kind: "ok"}
	})
	if err != nil {
		if _, ok := err.(*ErrHang); ok {
			return Verdict{Kind: "hang", Err: err.Error()}
		}
		return Verdict{Kind: "panic", Err: err.Error()}
	}
	return v
}

// Chain builds a verified chain slice.
func Chain(certs ...*x509.Certificate) [][]*x509.Certificate {
	return [][]*x509.Certificate{certs}
}
