package c20

import (
	"fmt"
	"io/fs"
	"os"
	"path/filepath"
	"regexp"
	"runtime"
	"sort"
	"strings"
	"sync/atomic"
	"testing"
	"time"

	"verifharness/ev"
	"verifharness/sim"
	"verifharness/world"

	"pgregory.net/rapid"
)

var sysTmp string

func TestMain(m *testing.M) {
	// everything the code under test puts into "the system temp dir" lands in a sandbox we can inspect
	sysTmp = filepath.Join(world.ScratchBase(), "systmp")
	os.MkdirAll(sysTmp, 0o755)
	os.Setenv("TMPDIR", sysTmp)
	code := m.Run()
	world.Cleanup()
	os.Exit(code)
}

var nastyQueries = []string{
	"",
	"x=../../../../etc/passwd",
	"f=..%2f..%2f..%2fescape",
	"p=%5c..%5c..%5cwin",
	"issuer=CA1", "issuer=CA2", "cmd=crl&issuer=CA1", "cmd=crl&issuer=CA2",
	"ü=ñ&日本=語",
	"a=" + strings.Repeat("A", 1500),
	"b=" + strings.Repeat("%2e%2e%2f", 300),
	"crl_x_tmp=1", "n=/", "n=%00",
}

func genCase(t *rapid.T) sim.Spec {
	var s sim.Spec
	s.Config = sim.Config{
		Disk:            rapid.IntRange(0, 4).Draw(t, "disk") != 0,
		Strict:          rapid.Bool().Draw(t, "strict"),
		Background:      rapid.IntRange(0, 3).Draw(t, "background") == 0,
		Sig:             rapid.SampledFrom([]string{"verify", "verify", "verify_log"}).Draw(t, "sig"),
		WorkDirSpelling: rapid.SampledFrom([]string{"", "", "slash", "dot"}).Draw(t, "spelling"),
	}
	s.Issuers = rapid.IntRange(1, 2).Draw(t, "issuers")
	s.CDPs = sim.DrawCDPs(t, s.Issuers, 4, []string{"http", "http", "http", "http2", "ldap+http", "ldap-only", "unparsable"})
	for i := range s.CDPs {
		if s.CDPs[i].Usable() {
			s.CDPs[i].Query = rapid.SampledFrom(nastyQueries).Draw(t, fmt.Sprintf("q%d", i))
		}
	}
	// locations that differ only in the query string: same host, port and path as the previous CDP
	for i := 1; i < len(s.CDPs); i++ {
		if s.CDPs[i].Kind == "http" && s.CDPs[i-1].Kind == "http" && s.CDPs[i].Twin < 0 && s.CDPs[i-1].Twin < 0 && s.CDPs[i].UpperOf == 0 && s.CDPs[i-1].UpperOf == 0 && s.CDPs[i-1].SamePath == 0 &&
			rapid.IntRange(0, 1).Draw(t, fmt.Sprintf("qt%d", i)) == 0 {
			s.CDPs[i].SamePath = i
			s.CDPs[i].Query = "cmd=crl&issuer=CA" + fmt.Sprint(i)
			s.CDPs[i-1].Query = "cmd=crl&issuer=CA" + fmt.Sprint(i-1)
		}
	}
	if s.Config.Disk && rapid.IntRange(0, 2).Draw(t, "conf") == 0 {
		s.Config.TrustSigners = true
		if rapid.Bool().Draw(t, "conffile") {
			s.Config.ConfFiles = []int{0}
		} else if s.CDPs[0].Usable() {
			s.Config.ConfURLs = []int{0}
		}
	}
	for i := range s.CDPs {
		s.Initial = append(s.Initial, sim.DrawContent(t, fmt.Sprintf("init%d", i), 6))
	}
	if len(s.Config.ConfFiles)+len(s.Config.ConfURLs) > 0 {
		s.Initial[0] = sim.Content{Kind: "good", Set: sim.DrawSet(t, "confset")}
	}
	s.Events = sim.DrawEvents(t, &s, rapid.IntRange(4, 16).Draw(t, "nev"), 5, true)
	// rarely: a download whose connection is reset in the middle of the body (costs 2 s of loader retries)
	if rapid.IntRange(0, 11).Draw(t, "abort") == 0 {
		for i := range s.Events {
			if s.Events[i].Kind == "origin" {
				s.Events[i].Content = sim.Content{Kind: "abort", Set: sim.DrawSet(t, "abortset")}
				break
			}
		}
	}
	return s
}

var hex64 = regexp.MustCompile(`^[0-9a-f]{64}$`)
var tmpPat = regexp.MustCompile(`^crl_.*_tmp$`)

// foreign files planted in work_dir: names that resemble the temp pattern or a store name but are neither
var foreign = []string{"crl_backup_tmp.bak", "mycrl_1_tmp", "crl_x_tmpfile", "notes.txt", "CRL_UPPER_TMP", "crl__tmp_"}

const foreignStoreDir = "00000000000000000000000000000000000000000000000000000000deadbeef"

type observer struct {
	outside  map[string]string // path -> "size/mtime" of everything in the sandbox outside work_dir
	stores   map[string]bool   // store directories seen in work_dir
	named    map[int]bool      // usable CDPs named so far in the running process or earlier (disk)
	x        *ev.Ctx
	sawFail  bool
	restarts int
	mid      atomic.Value // first violation seen WHILE a load / refresh was under way (string)
	midSeen  atomic.Int64
}

// midLoad runs on the goroutine of the code under test at the hook sites right after a download: the downloaded
// document exists as a temporary file at that moment, and it too has to lie inside work_dir.
func (o *observer) midLoad(w *sim.World) func(string) {
	return func(name string) {
		if name != "repo.stage.downloaded" && name != "repo.refresh.downloaded" {
			return
		}
		o.midSeen.Add(1)
		if ents, _ := os.ReadDir(sysTmp); len(ents) > 0 {
			o.mid.CompareAndSwap(nil, fmt.Sprintf("while a list was being taken in (%s) the system temp directory held %q: artefacts of a running load lie outside work_dir", name, ents[0].Name()))
			return
		}
		sb := w.SandboxDir()
		if d := diff(o.outside, snapshot(sb, w.WorkDir(), filepath.Join(sb, "files"))); len(d) > 0 {
			o.mid.CompareAndSwap(nil, fmt.Sprintf("while a list was being taken in (%s) the file system changed OUTSIDE work_dir: %v", name, d))
		}
	}
}

func snapshot(root string, skip ...string) map[string]string {
	m := map[string]string{}
	filepath.WalkDir(root, func(p string, d fs.DirEntry, err error) error {
		if err != nil {
			return nil
		}
		for _, s := range skip {
			if p == s {
				return filepath.SkipDir
			}
		}
		info, err := d.Info()
		if err != nil {
			return nil
		}
		if d.IsDir() {
			m[p] = "dir"
		} else {
			m[p] = fmt.Sprintf("%d/%d", info.Size(), info.ModTime().UnixNano())
		}
		return nil
	})
	return m
}

func diff(a, b map[string]string) []string {
	var d []string
	for k, v := range a {
		if w, ok := b[k]; !ok {
			d = append(d, "deleted "+k)
		} else if w != v {
			d = append(d, "modified "+k)
		}
	}
	for k := range b {
		if _, ok := a[k]; !ok {
			d = append(d, "created "+k)
		}
	}
	sort.Strings(d)
	return d
}

func (o *observer) BeforeStart(w *sim.World) {
	wd := w.WorkDir()
	for _, f := range foreign {
		os.WriteFile(filepath.Join(wd, f), []byte("foreign"), 0o644)
	}
	os.MkdirAll(filepath.Join(wd, foreignStoreDir), 0o755)
	os.WriteFile(filepath.Join(wd, foreignStoreDir, "keep.me"), []byte("foreign"), 0o644)
	// decoys next to work_dir
	sb := w.SandboxDir()
	os.WriteFile(filepath.Join(sb, "crl_decoy_tmp"), []byte("decoy"), 0o644)
	os.MkdirAll(filepath.Join(sb, "work-sibling"), 0o755)
	os.WriteFile(filepath.Join(sb, "work-sibling", "crl_decoy_tmp"), []byte("decoy"), 0o644)
	o.outside = snapshot(sb, wd, filepath.Join(sb, "files"))
	sim.SetExtraHook(o.midLoad(w))
}

func (o *observer) AfterEvent(i int, e sim.Event, w *sim.World, m *sim.Model) error {
	wd := w.WorkDir()
	sb := w.SandboxDir()
	spec := w.Spec()
	if v := o.mid.Load(); v != nil {
		return fmt.Errorf("%s", v.(string))
	}
	// 1. nothing outside work_dir was created, deleted or modified (the harness's own "files" dir excluded)
	now := snapshot(sb, wd, filepath.Join(sb, "files"))
	if d := diff(o.outside, now); len(d) > 0 {
		return fmt.Errorf("file system changed OUTSIDE work_dir: %v", d)
	}
	if ents, _ := os.ReadDir(sysTmp); len(ents) > 0 {
		return fmt.Errorf("the system temp directory was used (%s) instead of work_dir", ents[0].Name())
	}
	// 2. work_dir: no temporary artefacts after the event; foreign files untouched
	ents, err := os.ReadDir(wd)
	if err != nil {
		return fmt.Errorf("work_dir unreadable: %v", err)
	}
	cur := map[string]bool{}
	for _, en := range ents {
		n := en.Name()
		if tmpPat.MatchString(n) {
			return fmt.Errorf("temporary artefact %q remains in work_dir after the event", n)
		}
		if hex64.MatchString(n) && n != foreignStoreDir {
			cur[n] = true
			continue
		}
		if n != foreignStoreDir && !isForeign(n) {
			return fmt.Errorf("unexpected artefact %q in work_dir after the event (neither a store directory nor one of the planted foreign files)", n)
		}
	}
	for _, f := range foreign {
		if b, err := os.ReadFile(filepath.Join(wd, f)); err != nil || string(b) != "foreign" {
			return fmt.Errorf("foreign file %q in work_dir was removed or changed", f)
		}
	}
	if b, err := os.ReadFile(filepath.Join(wd, foreignStoreDir, "keep.me")); err != nil || string(b) != "foreign" {
		return fmt.Errorf("foreign directory %s in work_dir was removed or changed", foreignStoreDir)
	}
	// 3. live stores never disappear; distinct locations have distinct stores, the same location the same store
	for s := range o.stores {
		if !cur[s] {
			return fmt.Errorf("store directory %s disappeared from work_dir", s)
		}
	}
	for s := range cur {
		o.stores[s] = true
	}
	if e.Kind == "handshake" && e.CDP >= 0 && spec.CDPs[e.CDP].Usable() {
		o.named[e.CDP] = true
	}
	if spec.Config.Disk {
		// upper bound: one store per distinct location used so far; lower bound: one store per distinct location whose
		// list is (or was) in force - an implementation may create a store lazily, but two locations with a list in
		// force can never share one
		upper := len(o.named) + len(spec.Config.ConfFiles) + len(spec.Config.ConfURLs)
		lower := len(spec.Config.ConfFiles) + len(spec.Config.ConfURLs)
		for c := range spec.CDPs {
			if _, loaded := m.InForce(c); loaded || m.Persisted(c) {
				lower++
			}
		}
		if len(cur) > upper {
			return fmt.Errorf("work_dir holds %d store directories although only %d distinct locations were used so far (CDP sets named: %v)", len(cur), upper, keysOf(o.named))
		}
		if len(cur) < lower {
			return fmt.Errorf("work_dir holds %d store directories although %d distinct locations have a list in force or on disk: distinct locations share a store", len(cur), lower)
		}
	} else if len(cur) != 0 {
		return fmt.Errorf("memory storage created store directories in work_dir: %v", cur)
	}
	if e.Kind == "restart" {
		o.restarts++
	}
	return nil
}

func isForeign(n string) bool {
	for _, f := range foreign {
		if f == n {
			return true
		}
	}
	return false
}

func keysOf(m map[int]bool) []int {
	var k []int
	for x := range m {
		k = append(k, x)
	}
	sort.Ints(k)
	return k
}

func runCase(s sim.Spec, x *ev.Ctx) error {
	o := &observer{stores: map[string]bool{}, named: map[int]bool{}, x: x}
	res, err := sim.Run(s, x, o)
	sim.SetExtraHook(nil)
	if err != nil {
		return err
	}
	if v := o.mid.Load(); v != nil {
		return fmt.Errorf("%s", v.(string))
	}
	if o.midSeen.Load() > 0 {
		x.Class("observed-while-a-list-was-taken-in")
	}
	if ents, _ := os.ReadDir(sysTmp); len(ents) > 0 {
		return fmt.Errorf("the system temp directory was used (%s) instead of work_dir", ents[0].Name())
	}
	queries := 0
	for _, c := range s.CDPs {
		if c.Query != "" {
			queries++
		}
	}
	x.Classf("disk=%v", s.Config.Disk)
	x.Classf("spelling=%s", s.Config.WorkDirSpelling)
	if res.RejectedLoads > 0 {
		x.Class("failed-load")
	}
	for _, e := range s.Events {
		if e.Kind == "origin" && e.Content.Kind == "abort" {
			x.Class("download-reset-mid-body")
		}
	}
	if res.Restarts > 0 {
		x.Class("restart")
	}
	if res.ProvisionFailed {
		x.Class("provision-failed")
	}
	for _, c := range s.CDPs {
		if c.SamePath > 0 {
			x.Class("locations-differing-only-in-query")
		}
		if c.Twin >= 0 {
			x.Class("locations-differing-only-in-port")
		}
		if c.UpperOf > 0 {
			x.Class("locations-differing-only-in-letter-case")
		}
	}
	if res.Handshakes > 0 && (res.RejectedLoads > 0 || res.Restarts > 0 || queries > 0) {
		x.NonTrivial(fmt.Sprintf("%+v|%d|%d|%s", s.Config, len(s.CDPs), queries, strings.Join(res.Trace, ",")))
	}
	return nil
}

var spec = ev.Spec[sim.Spec]{
	ID:          "C20",
	Gen:         genCase,
	Run:         runCase,
	Rule:        "histories on a real checker (sim engine: handshakes, origin states incl. failing loads/refreshes, ticks, restarts) whose work_dir sits in a sandbox with decoys next to it, foreign files inside it (names resembling crl_*_tmp and a 64-hex store name) and TMPDIR redirected to an inspected directory; location strings carry hostile query strings (path traversal, %2f / %5c, unicode, 1.5 KiB, NUL, the temp pattern) and pairs that differ only in the query string or only in the port; work_dir is spelled canonically, with a trailing slash or with a /./ component. After EVERY event, and additionally WHILE a list is being taken in (observed from the hook sites right after a download, when the downloaded document exists as a temporary file): nothing outside work_dir was created, deleted or modified and the system temp directory is empty; after every event: no crl_*_tmp remains; foreign files and directory are intact; no store directory disappeared; on disk the number of store directories lies between the number of distinct locations with a list in force or persisted and the number of distinct locations used so far (also across restarts; two locations never share a store), in memory there are none. Verdicts are still compared with the reference model. Non-trivial: a history with a failed load, a restart or a hostile location string.",
	Assumptions: []string{"locations equal after the loader's own URL normalisation may share a store and are not generated as 'distinct'"},
}

func TestProp(t *testing.T)   { ev.Check(t, spec) }
func TestReplay(t *testing.T) { ev.Replay(t, spec) }

// ---------------------------------------------------------------- lifecycle

// Cycle is a provision/cleanup cycle series.
type Cycle struct {
	Disk     bool   `json:"disk"`
	K        int    `json:"k"`
	Spelling string `json:"spelling"`
	CDPs     int    `json:"cdps"`
	Conf     bool   `json:"conf"`
	Fail     bool   `json:"fail"` // one CDP serves garbage
}

func genCycle(t *rapid.T) Cycle {
	return Cycle{
		Disk:     rapid.Bool().Draw(t, "disk"),
		K:        rapid.IntRange(2, 20).Draw(t, "k"),
		Spelling: rapid.SampledFrom([]string{"", "slash", "dot"}).Draw(t, "spelling"),
		CDPs:     rapid.IntRange(1, 3).Draw(t, "cdps"),
		Conf:     rapid.Bool().Draw(t, "conf"),
		Fail:     rapid.Bool().Draw(t, "fail"),
	}
}

// repoGoroutines counts goroutines that were STARTED by the plugin or by leveldb (the "created by" frame), i.e.
// background activity the plugin owns; goroutines of the harness that merely call into the plugin do not count.
func repoGoroutines() int {
	buf := make([]byte, 4<<20)
	buf = buf[:runtime.Stack(buf, true)]
	n := 0
	for _, g := range strings.Split(string(buf), "\n\n") {
		i := strings.LastIndex(g, "created by ")
		if i < 0 {
			continue
		}
		creator := g[i:]
		if strings.Contains(creator, "caddy-revocation-validator/") || strings.Contains(creator, "goleveldb") {
			n++
		}
	}
	return n
}

func fdsInto(dir string) []string {
	var out []string
	ents, _ := os.ReadDir("/proc/self/fd")
	for _, e := range ents {
		if t, err := os.Readlink("/proc/self/fd/" + e.Name()); err == nil && strings.HasPrefix(t, dir) {
			out = append(out, t)
		}
	}
	return out
}

func runCycle(c Cycle, x *ev.Ctx) error {
	// one history per cycle: each sim.Run provisions, does handshakes, cleans up; the work_dir persists between them
	// through a shared spec with restarts: restart = Cleanup + Provision on the same work_dir.
	var s sim.Spec
	s.Config = sim.Config{Disk: c.Disk, Strict: true, Sig: "verify", WorkDirSpelling: c.Spelling, TrustSigners: true}
	s.Issuers = 1
	for i := 0; i < c.CDPs; i++ {
		s.CDPs = append(s.CDPs, sim.CDPSpec{Issuer: 0, Kind: "http", Twin: -1})
		ct := sim.Content{Kind: "good", Set: []int{0, i % 3}}
		if c.Fail && i == c.CDPs-1 && i > 0 {
			ct = sim.Content{Kind: "garbage"}
		}
		s.Initial = append(s.Initial, ct)
	}
	if c.Conf {
		s.Config.ConfURLs = []int{0}
	}
	for k := 0; k < c.K; k++ {
		for i := 0; i < c.CDPs; i++ {
			s.Events = append(s.Events, sim.Event{Kind: "handshake", CDP: i, Probe: k % 4})
		}
		if k%3 == 1 {
			s.Events = append(s.Events, sim.Event{Kind: "tick"})
		}
		s.Events = append(s.Events, sim.Event{Kind: "restart"})
	}
	base := repoGoroutines()
	o := &cycleObs{base: base}
	if _, err := sim.Run(s, x, o); err != nil {
		return err
	}
	// after the final Cleanup (sim.Run cleans up on return)
	if err := settled(o.wd, base, "after the final Cleanup"); err != nil {
		return err
	}
	x.Classf("cycles-%d", c.K/5*5)
	x.NonTrivial(fmt.Sprintf("%+v", c))
	return nil
}

type cycleObs struct {
	base int
	wd   string
	n    int
}

func (o *cycleObs) BeforeStart(w *sim.World) { o.wd = w.WorkDir() }

func (o *cycleObs) AfterEvent(i int, e sim.Event, w *sim.World, m *sim.Model) error {
	if e.Kind != "restart" {
		return nil
	}
	o.n++
	// The work_dir belongs to the running instance until ITS Cleanup. A further validator configured with the same
	// work_dir (config reload with an unchanged crl_config) is refused or not - but a refused attempt, which the host
	// cleans up like any module whose Provision failed, must not change the answer for the next attempt.
	if o.n%2 == 1 {
		var refused [2]bool
		for k := range refused {
			other, err := world.NewChecker(w.Opts())
			refused[k] = err != nil
			if err == nil {
				other.Cleanup()
			}
		}
		if refused[0] != refused[1] {
			return fmt.Errorf("while a validator is running on the work_dir a second validator with the same work_dir was refused=%v, a third one (after the host cleaned up the second) refused=%v: the Cleanup of a validator that never obtained the work_dir released the registration of the running one", refused[0], refused[1])
		}
	}
	// a restart is Cleanup + Provision: the new instance is running now; what the OLD one held must be gone.
	// The running instance legitimately owns goroutines and handles, so compare against the level right after
	// the first provisioning: it must not grow with the number of cycles.
	g := repoGoroutines()
	if o.n == 1 {
		o.base = g
		return nil
	}
	deadline := time.Now().Add(3 * time.Second)
	for g > o.base && time.Now().Before(deadline) {
		time.Sleep(5 * time.Millisecond)
		g = repoGoroutines()
	}
	if g > o.base {
		return fmt.Errorf("after %d provision/cleanup cycles %d goroutines of the plugin/leveldb are alive, after the first cycle there were %d: background activity is not released by Cleanup", o.n, g, o.base)
	}
	return nil
}

func settled(wd string, base int, when string) error {
	return settledWithin(wd, base, when, 3*time.Second)
}

// settledWithin polls until nothing of the plugin is left (or the grace period is over): refresh runs that were under way
// when Cleanup arrived wind down in bounded time (the store layer retries closing an already closed database for a few
// seconds per entry); what is still there after the grace period stays for ever.
func settledWithin(wd string, base int, when string, grace time.Duration) error {
	deadline := time.Now().Add(grace)
	for {
		g := repoGoroutines()
		fds := fdsInto(wd)
		var residue []string
		if ents, err := os.ReadDir(wd); err == nil {
			for _, en := range ents {
				if tmpPat.MatchString(en.Name()) && !isForeign(en.Name()) {
					residue = append(residue, en.Name())
				}
			}
		}
		if g <= base && len(fds) == 0 && len(residue) == 0 {
			return nil
		}
		if time.Now().After(deadline) {
			if len(residue) > 0 {
				return fmt.Errorf("%s: temporary artefacts remain in work_dir: %v", when, residue)
			}
			if len(fds) > 0 {
				return fmt.Errorf("%s: %d file descriptors still point into work_dir (e.g. %s)", when, len(fds), fds[0])
			}
			return fmt.Errorf("%s: %d goroutines of the plugin/leveldb are still alive (baseline %d)", when, g, base)
		}
		time.Sleep(5 * time.Millisecond)
	}
}

var cycleSpec = ev.Spec[Cycle]{
	ID:   "C20",
	Gen:  genCycle,
	Run:  runCycle,
	Rule: "lifecycle: 2..20 provision / handshakes (/ refresh) / cleanup cycles on one work_dir (spelled canonically, with trailing slash or with a /./ component), disk or memory, 1..3 CDP sets (one possibly failing), optionally a configured crl_url. Every re-provisioning must succeed (work_dir registration and LevelDB LOCK released); while an instance runs, two further provisioning attempts on its work_dir (each cleaned up by the host) get the same answer, verdicts follow the model, the number of plugin/leveldb goroutines after n cycles does not exceed the number after the first, and after the final Cleanup no goroutine of the plugin or of leveldb is alive and no file descriptor of the process points into work_dir. Every case is non-trivial.",
}

func TestCycles(t *testing.T)      { ev.Check(t, cycleSpec) }
func TestReplayCycle(t *testing.T) { ev.Replay(t, cycleSpec) }
