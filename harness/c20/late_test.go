package c20

import (
	"crypto/x509"
	"fmt"
	"os"
	"strings"
	"sync"
	"sync/atomic"
	"testing"
	"time"

	"verifharness/ev"
	"verifharness/world"

	"github.com/gr33nbl00d/caddy-revocation-validator/core/verifhook"
	"pgregory.net/rapid"
)

// Late is a provision/cleanup cycle series in which Cleanup arrives while a refresh (or a first load) is under way:
// the activity is held at a hook site, Cleanup is called, the activity is released and finishes afterwards.
type Late struct {
	Disk   bool     `json:"disk"`
	Conf   bool     `json:"conf"`   // the location is also a configured crl_url
	Sites  []string `json:"sites"`  // per cycle: the hook site at which the activity is held
	First  []bool   `json:"first"`  // per cycle: the held activity is the first load of a further location (else a refresh)
	NewOK  []bool   `json:"new_ok"` // per cycle: the list offered to the held activity is acceptable (else garbage)
	Strict bool     `json:"strict"`
	// Background: crl_fetch_mode fetch_background (a first load then runs inside a refresh run, without the entry lock)
	Background bool `json:"background,omitempty"`
	// InitialHeld: per cycle: before the cycle proper, a validator is provisioned whose update goroutine is held in its
	// very first refresh pass while Cleanup is called; the pass is released afterwards
	InitialHeld []bool `json:"initial_held,omitempty"`
	// BadFirst: per cycle: before the cycle's provisioning, a provisioning attempt with a broken configuration (an
	// additional crl_url that serves no CRL) fails on the same work_dir and is cleaned up by the host
	BadFirst []bool `json:"bad_first,omitempty"`
}

var refreshSites = []string{"checker.update.start", "repo.refresh.downloaded", "repo.refresh.parsed", "repo.refresh.accepted", "repo.refresh.swap.before", "repo.refresh.swap.after",
	"leveldb.update.start", "leveldb.update.old-closed", "leveldb.update.new-closed", "leveldb.update.old-moved", "leveldb.update.new-moved", "leveldb.update.old-removed", "leveldb.update.reopened",
	"map.update.start", "map.update.cleared", "map.update.copied"}
var firstSites = []string{"repo.stage.downloaded", "repo.stage.parsed", "repo.stage.accepted", "repo.commit.before", "repo.commit.swapped",
	"leveldb.update.start", "leveldb.update.old-closed", "leveldb.update.new-moved", "leveldb.update.reopened", "map.update.cleared"}

func genLate(t *rapid.T) Late {
	c := Late{Disk: rapid.IntRange(0, 3).Draw(t, "disk") > 0, Conf: rapid.IntRange(0, 2).Draw(t, "conf") == 0, Strict: rapid.Bool().Draw(t, "strict"), Background: rapid.IntRange(0, 2).Draw(t, "background") == 0}
	k := rapid.IntRange(1, 5).Draw(t, "k")
	for i := 0; i < k; i++ {
		first := rapid.IntRange(0, 2).Draw(t, fmt.Sprintf("first%d", i)) == 0
		ok := rapid.IntRange(0, 3).Draw(t, fmt.Sprintf("ok%d", i)) > 0
		all := refreshSites
		if first {
			all = firstSites
		}
		// only sites the activity can reach: the swap sites of the configured back-end, and for a garbage list
		// nothing behind the download
		var sites []string
		for _, s := range all {
			if strings.HasPrefix(s, "leveldb.") && !c.Disk || strings.HasPrefix(s, "map.") && c.Disk {
				continue
			}
			if !ok && s != "checker.update.start" && !strings.HasSuffix(s, ".downloaded") {
				continue
			}
			sites = append(sites, s)
		}
		c.First = append(c.First, first)
		c.Sites = append(c.Sites, rapid.SampledFrom(sites).Draw(t, fmt.Sprintf("site%d", i)))
		c.NewOK = append(c.NewOK, ok)
		c.BadFirst = append(c.BadFirst, rapid.IntRange(0, 2).Draw(t, fmt.Sprintf("badfirst%d", i)) == 0)
		c.InitialHeld = append(c.InitialHeld, rapid.IntRange(0, 2).Draw(t, fmt.Sprintf("initialheld%d", i)) == 0)
	}
	return c
}

var lateSeq atomic.Int64

func runLate(c Late, x *ev.Ctx) error {
	id := lateSeq.Add(1)
	name := fmt.Sprintf("c20l-%d-%d", os.Getpid(), id)
	o := world.NewOrigin()
	defer o.Close()
	pki := world.NewSimplePKI(name, "p256a", "p256b")
	wd := world.NewDir("c20late")
	defer os.RemoveAll(wd)
	url, url2 := o.URL("/a.crl"), o.URL("/b.crl")
	number := 1
	o.Serve("/a.crl", pki.CRL(number, "0a"))
	o.Serve("/b.crl", pki.CRL(number, "0a"))
	listed := pki.ChainFor(pki.Leaf("0a", []string{url}, nil))
	unlisted := pki.ChainFor(pki.Leaf("0c", []string{url}, nil))
	listed2 := pki.ChainFor(pki.Leaf("0a", []string{url2}, nil))
	opts := world.CRLOpts{WorkDir: wd, Disk: c.Disk, Strict: c.Strict, Sig: "verify", Trusted: []*x509.Certificate{pki.Issuer().Cert}, Background: c.Background}
	if c.Conf {
		opts.URLs = []string{url}
	}
	base := repoGoroutines()
	defer verifhook.Set(nil)
	reached := 0
	o.Serve("/broken.crl", []byte("this location serves no CRL"))
	for i, site := range c.Sites {
		if i < len(c.BadFirst) && c.BadFirst[i] {
			// a configuration that cannot be provisioned (one configured CRL is unusable): rejected, cleaned up by the
			// host; it must leave nothing behind that blocks the corrected configuration on the same work_dir
			bad := opts
			bad.URLs = append(append([]string{}, opts.URLs...), o.URL("/broken.crl"))
			if b, err := world.NewChecker(bad); err == nil {
				b.Cleanup()
				return fmt.Errorf("cycle %d: a configuration with a crl_url that serves no CRL was provisioned", i)
			}
			x.Class("failed-provisioning-before-the-cycle")
		}
		if i < len(c.InitialHeld) && c.InitialHeld[i] {
			var once0 sync.Once
			at0, release0 := make(chan struct{}), make(chan struct{})
			verifhook.Set(func(n string) {
				if n == "checker.update.start" {
					once0.Do(func() {
						close(at0)
						<-release0
					})
				}
			})
			o0 := opts
			o0.NoSettle = true // the only refresh pass is the update goroutine's own first one
			c0, err := world.NewChecker(o0)
			if err != nil {
				close(release0)
				return fmt.Errorf("cycle %d: provisioning failed: %v", i, err)
			}
			select {
			case <-at0:
				x.Class("cleanup-while-the-update-goroutine-is-in-its-first-pass")
			case <-time.After(world.DefaultWatchdog):
			}
			cerr := make(chan error, 1)
			go func() {
				_, err := world.Call("Cleanup", 2*time.Minute, func() int { c0.Cleanup(); return 0 })
				cerr <- err
			}()
			time.Sleep(50 * time.Millisecond)
			close(release0)
			if err := <-cerr; err != nil {
				return fmt.Errorf("cycle %d: Cleanup while the update goroutine was in its first pass never returned: %v", i, err)
			}
			verifhook.Set(nil)
			if err := settledWithin(wd, base, fmt.Sprintf("cycle %d, after Cleanup arrived while the update goroutine was in its first refresh pass", i), 45*time.Second); err != nil {
				return err
			}
		}
		ch, err := world.NewChecker(opts)
		if err != nil {
			return fmt.Errorf("cycle %d: provisioning on the work_dir failed after the previous Cleanup (previous cycle held at %s): %v", i, prevSite(c, i), err)
		}
		if c.Background {
			world.Ask(ch, listed) // announces the location
			world.Call("refresh", 2*time.Minute, func() int { ch.VerifForceUpdate(); return 0 })
		}
		if v := world.Ask(ch, listed); v.Kind != "revoked" {
			ch.Cleanup()
			return fmt.Errorf("cycle %d: the listed certificate answers %v (previous cycle held at %s)", i, v, prevSite(c, i))
		}
		if v := world.Ask(ch, unlisted); v.Kind != "ok" {
			ch.Cleanup()
			return fmt.Errorf("cycle %d: the unlisted certificate answers %v", i, v)
		}
		// the list offered to the held activity
		number++
		path := "/a.crl"
		if c.First[i] {
			path = "/b.crl"
		}
		if c.NewOK[i] {
			o.Serve(path, pki.CRL(number, "0a"))
		} else {
			o.Serve(path, []byte("this is not a CRL"))
		}
		var once sync.Once
		at := make(chan struct{})
		release := make(chan struct{})
		verifhook.Set(func(n string) {
			if n == site {
				once.Do(func() {
					close(at)
					<-release
				})
			}
		})
		finished := make(chan struct{})
		go func() {
			defer close(finished)
			if c.First[i] {
				world.Ask(ch, listed2)
				if c.Background {
					// the handshake only announced the location; the refresh run performs the first load
					world.Call("refresh", 2*time.Minute, func() int { ch.VerifForceUpdate(); return 0 })
				}
			} else {
				world.Call("refresh", 2*time.Minute, func() int { ch.VerifForceUpdate(); return 0 })
			}
		}()
		held := false
		select {
		case <-at:
			held = true
			reached++
			x.Classf("held-at=%s", site)
		case <-finished:
			// the activity never passes this site (e.g. a LevelDB site with the memory back-end, or a rejected list)
			x.Class("site-not-reached")
		case <-time.After(world.DefaultWatchdog):
			close(release)
			return fmt.Errorf("cycle %d: the activity neither reached %s nor finished", i, site)
		}
		cleaned := make(chan error, 1)
		go func() {
			_, err := world.Call("Cleanup", 2*time.Minute, func() int { ch.Cleanup(); return 0 })
			cleaned <- err
		}()
		cleanupFirst := false
		if held {
			// Cleanup may legitimately wait for the activity; give it a moment, then let the activity go on
			select {
			case err := <-cleaned:
				cleanupFirst = true
				cleaned <- err
			case <-time.After(150 * time.Millisecond):
			}
			close(release)
		}
		if err := <-cleaned; err != nil {
			return fmt.Errorf("cycle %d: Cleanup while the activity was held at %s never returned: %v", i, site, err)
		}
		select {
		case <-finished:
		case <-time.After(2 * time.Minute):
			return fmt.Errorf("cycle %d: the activity held at %s did not finish after Cleanup", i, site)
		}
		verifhook.Set(nil)
		o.Serve(path, pki.CRL(number, "0a")) // the origin is healthy again before the next provisioning
		if cleanupFirst {
			x.Class("cleanup-returned-while-activity-held")
		}
		if err := settledWithin(wd, base, fmt.Sprintf("cycle %d, after Cleanup arrived while the activity was held at %s (first=%v acceptable=%v) and the activity finished", i, site, c.First[i], c.NewOK[i]), 45*time.Second); err != nil {
			return err
		}
	}
	// a last clean cycle: the work_dir is usable
	ch, err := world.NewChecker(opts)
	if err != nil {
		return fmt.Errorf("final provisioning on the work_dir failed (previous cycle held at %s): %v", prevSite(c, len(c.Sites)), err)
	}
	if c.Background {
		world.Ask(ch, listed)
		world.Call("refresh", 2*time.Minute, func() int { ch.VerifForceUpdate(); return 0 })
	}
	v := world.Ask(ch, listed)
	ch.Cleanup()
	if v.Kind != "revoked" {
		return fmt.Errorf("final cycle: the listed certificate answers %v", v)
	}
	if err := settledWithin(wd, base, "after the final Cleanup", 45*time.Second); err != nil {
		return err
	}
	if reached > 0 {
		x.NonTrivial(fmt.Sprintf("%+v", c))
	}
	return nil
}

func prevSite(c Late, i int) string {
	if i == 0 {
		return "-"
	}
	return c.Sites[i-1]
}

var lateSpec = ev.Spec[Late]{
	ID:   "C20",
	Gen:  genLate,
	Run:  runLate,
	Rule: "late activity: 1..5 provision/cleanup cycles on one work_dir in which Cleanup arrives while a refresh or the first load of a further location is held at one of the verif hook sites (download done, parsed, accepted, before/after the store swap, every step of the LevelDB / map swap); the held activity is then released and finishes AFTER Cleanup; the offered list is acceptable or garbage; disk or memory, fetch_actively or fetch_background, optionally a configured crl_url; optionally a validator that is cleaned up while its update goroutine is still in its first refresh pass, optionally a provisioning attempt with a broken configuration (rejected, cleaned up by the host) precedes a cycle. Oracles: Cleanup returns; the activity finishes; afterwards (within 45 s: refresh runs that were under way wind down in bounded time) no goroutine of the plugin/leveldb is alive and no file descriptor of the process points into work_dir; the next provisioning on the same work_dir succeeds and the listed certificate is revoked, the unlisted one accepted. Non-trivial: the activity really was held at the site at least once.",
}

func TestLate(t *testing.T)       { ev.Check(t, lateSpec) }
func TestReplayLate(t *testing.T) { ev.Replay(t, lateSpec) }
