package c19

import (
	"bytes"
	"encoding/json"
	"fmt"
	"os"
	"path/filepath"
	"reflect"
	"regexp"
	"strings"
	"sync/atomic"
	"testing"
	"time"

	"verifharness/ev"
	"verifharness/gen"
	"verifharness/world"

	"github.com/gr33nbl00d/caddy-revocation-validator/config"
	"pgregory.net/rapid"
)

// Opt is one option of an assignment: Set=false means omitted.
type Opt struct {
	Set bool   `json:"set"`
	Val string `json:"val,omitempty"`
}

// Case is an option assignment plus optionally one defect (misspelt key / invalid value).
type Case struct {
	Mode       Opt   `json:"mode"`
	Storage    Opt   `json:"storage_type"`
	Interval   Opt   `json:"update_interval"`
	Sig        Opt   `json:"signature_validation_mode"`
	Fetch      Opt   `json:"crl_fetch_mode"`
	CDPStrict  Opt   `json:"crl_cdp_strict"`
	Cache      Opt   `json:"default_cache_duration"`
	AIAStrict  Opt   `json:"ocsp_aia_strict"`
	URLs       int   `json:"crl_urls"`
	Files      int   `json:"crl_files"`
	Signers    int   `json:"trusted_signature_certs"`
	Responders int   `json:"trusted_responder_certs"`
	CRLBlock   bool  `json:"crl_config_present"`
	CDPBlock   bool  `json:"cdp_config_present"`
	OCSPBlock  bool  `json:"ocsp_config_present"`
	Order      []int `json:"order"` // permutation seed for the Caddyfile option order
	// Defect: "" | misspelt:<level> | invalid:<option>
	Defect string `json:"defect,omitempty"`
	Typo   int    `json:"typo,omitempty"`
}

func opt(t *rapid.T, label string, vals ...string) Opt {
	if rapid.IntRange(0, 2).Draw(t, label+"_set") == 0 {
		return Opt{}
	}
	return Opt{Set: true, Val: rapid.SampledFrom(vals).Draw(t, label)}
}

func genCase(t *rapid.T) Case {
	c := Case{
		Mode:       opt(t, "mode", "prefer_ocsp", "prefer_crl", "ocsp_only", "crl_only", "disabled"),
		Storage:    opt(t, "storage", "memory", "disk"),
		Interval:   opt(t, "interval", "10m", "90s", "1h30m", "250ms"),
		Sig:        opt(t, "sig", "none", "verify", "verify_log"),
		Fetch:      opt(t, "fetch", "fetch_actively", "fetch_background"),
		CDPStrict:  opt(t, "cdpstrict", "true", "false"),
		Cache:      opt(t, "cache", "0s", "5m", "1h"),
		AIAStrict:  opt(t, "aiastrict", "true", "false"),
		URLs:       rapid.IntRange(0, 2).Draw(t, "urls"),
		Files:      rapid.IntRange(0, 2).Draw(t, "files"),
		Signers:    rapid.IntRange(0, 2).Draw(t, "signers"),
		Responders: rapid.IntRange(0, 2).Draw(t, "responders"),
		Order:      rapid.SliceOfN(rapid.IntRange(0, 1000), 12, 12).Draw(t, "order"),
	}
	c.CDPBlock = c.Fetch.Set || c.CDPStrict.Set || rapid.IntRange(0, 3).Draw(t, "cdpblock") == 0
	c.OCSPBlock = c.Cache.Set || c.AIAStrict.Set || c.Responders > 0 || rapid.IntRange(0, 3).Draw(t, "ocspblock") == 0
	c.CRLBlock = true
	if c.Mode.Set && (c.Mode.Val == "ocsp_only" || c.Mode.Val == "disabled") && rapid.Bool().Draw(t, "nocrl") {
		c.CRLBlock = false
	}
	if rapid.IntRange(0, 3).Draw(t, "defective") == 0 {
		c.Defect = rapid.SampledFrom([]string{
			"misspelt:top", "misspelt:crl", "misspelt:cdp", "misspelt:ocsp",
			"invalid:mode", "invalid:storage_type", "invalid:update_interval", "invalid:signature_validation_mode",
			"invalid:crl_fetch_mode", "invalid:crl_cdp_strict", "invalid:default_cache_duration", "invalid:ocsp_aia_strict",
			"invalid:trusted_signature_cert", "invalid:trusted_responder_cert", "invalid:work_dir", "surplus:value", "surplus:value",
		}).Draw(t, "defect")
		c.Typo = rapid.IntRange(0, 1000).Draw(t, "typo")
	}
	return c
}

func crlEnabled(mode Opt) bool {
	return !mode.Set || mode.Val == "prefer_ocsp" || mode.Val == "prefer_crl" || mode.Val == "crl_only"
}

// Eff is the effective configuration of a provisioned validator.
type Eff struct {
	Mode       config.RevocationCheckMode
	CRL        bool
	WorkDir    string
	Storage    config.StorageType
	Interval   time.Duration
	Sig        config.SignatureValidationMode
	URLs       []string
	Files      []string
	Signers    [][]byte
	Fetch      config.CRLFetchMode
	CDPStrict  bool
	Cache      time.Duration
	AIAStrict  bool
	Responders [][]byte
}

func effOf(v *world.Validator, enabledCRL bool) Eff {
	e := Eff{Mode: v.V.ModeParsed, CRL: enabledCRL}
	if enabledCRL && v.V.CRLConfig != nil {
		c := v.V.CRLConfig
		e.WorkDir, e.Storage, e.Interval, e.Sig = filepath.Clean(c.WorkDir), c.StorageTypeParsed, c.UpdateIntervalParsed, c.SignatureValidationModeParsed
		e.URLs, e.Files = append([]string{}, c.CRLUrls...), append([]string{}, c.CRLFiles...)
		for _, s := range c.TrustedSignatureCerts {
			e.Signers = append(e.Signers, s.Raw)
		}
		if c.CDPConfig != nil {
			e.Fetch, e.CDPStrict = c.CDPConfig.CRLFetchModeParsed, c.CDPConfig.CRLCDPStrict
		}
	}
	if v.V.OCSPConfig != nil {
		e.Cache, e.AIAStrict = v.V.OCSPConfig.DefaultCacheDurationParsed, v.V.OCSPConfig.OCSPAIAStrict
		for _, s := range v.V.OCSPConfig.TrustedResponderCerts {
			e.Responders = append(e.Responders, s.Raw)
		}
	}
	return e
}

func typo(key string, n int) string {
	out := key
	switch n % 4 {
	case 0:
		out = key + "s"
	case 1:
		out = key[:len(key)-1]
	case 2:
		if len(key) > 3 {
			out = key[:1] + key[2:3] + key[1:2] + key[3:] // swap two letters
		}
	default:
		out = strings.Replace(key, "_", "-", 1)
	}
	if out == key {
		out = key + "x"
	}
	return out
}

var seq atomic.Int64

type files struct {
	wd        string
	crlURLs   []string
	crlFiles  []string
	signers   []string
	signerDER [][]byte
	resp      []string
	respDER   [][]byte
}

func runCase(c Case, x *ev.Ctx) error {
	id := seq.Add(1)
	name := fmt.Sprintf("c19-%d-%d", os.Getpid(), id)
	dir := world.NewDir("c19")
	defer os.RemoveAll(dir)
	o := world.NewOrigin()
	defer o.Close()
	f := files{wd: filepath.Join(dir, "work")}
	os.MkdirAll(f.wd, 0o755)
	pki := world.NewSimplePKI(name, "p256a", "")
	list := pki.CRL(1, "05", "06")
	// configured CRLs are acceptable under every mode: signed by a configured trusted signer
	needSigner := c.URLs+c.Files > 0 && (!c.Sig.Set || c.Sig.Val == "verify")
	for i := 0; i < c.Signers || (needSigner && i < 1); i++ {
		ca := pki.Root
		if i > 0 {
			// the second trusted signer has the SAME distinguished name as the first and another key (a CA key rollover)
			ca = world.NewSimplePKI(name, "p256b", "").Root
		}
		p := filepath.Join(dir, fmt.Sprintf("signer%d.pem", i))
		os.WriteFile(p, ca.PEM(), 0o600)
		f.signers = append(f.signers, p)
		f.signerDER = append(f.signerDER, ca.Cert.Raw)
	}
	for i := 0; i < c.Responders; i++ {
		ca := world.NewSimplePKI(name+" resp", []string{"p256c", "p256d"}[i%2], "").Root // same name, different keys
		p := filepath.Join(dir, fmt.Sprintf("responder%d.pem", i))
		os.WriteFile(p, ca.PEM(), 0o600)
		f.resp = append(f.resp, p)
		f.respDER = append(f.respDER, ca.Cert.Raw)
	}
	for i := 0; i < c.URLs; i++ {
		o.Serve(fmt.Sprintf("/l%d.crl", i), list)
		f.crlURLs = append(f.crlURLs, o.URL(fmt.Sprintf("/l%d.crl", i)))
	}
	for i := 0; i < c.Files; i++ {
		p := filepath.Join(dir, fmt.Sprintf("l%d.crl", i))
		os.WriteFile(p, gen.PEMEncode(list, false), 0o600)
		f.crlFiles = append(f.crlFiles, p)
	}
	if !c.CRLBlock {
		f.crlURLs, f.crlFiles, f.signers, f.signerDER = nil, nil, nil, nil
	}
	jsonCfg := renderJSON(c, f)
	cfBody := renderCaddyfile(c, f)
	surplusAt := ""
	if c.Defect == "surplus:value" {
		// Caddyfile only: one single-valued option of the (otherwise valid) configuration gets a second value on its line
		lines := strings.Split(cfBody, "\n")
		var at []int
		for i, l := range lines {
			if surplusRe.MatchString(l) {
				at = append(at, i)
			}
		}
		if len(at) > 0 {
			i := at[c.Typo%len(at)]
			surplusAt = strings.Fields(lines[i])[0]
			lines[i] += []string{" surplus", " true", " \"30m\"", " memory"}[c.Typo/7%4]
			cfBody = strings.Join(lines, "\n")
		}
	}
	enabled := crlEnabled(c.Mode)

	loadJSON := func() (*Eff, error) {
		v, err := world.LoadValidatorJSON(jsonCfg)
		if err != nil {
			return nil, err
		}
		defer v.Close()
		e := effOf(v, enabled)
		return &e, nil
	}
	loadCF := func() (*Eff, error) {
		raw, err := world.AdaptCaddyfile(cfBody)
		if err != nil {
			return nil, fmt.Errorf("adapt: %v", err)
		}
		v, err := world.LoadValidatorJSON(raw)
		if err != nil {
			return nil, fmt.Errorf("load adapted %s: %v", raw, err)
		}
		defer v.Close()
		e := effOf(v, enabled)
		return &e, nil
	}
	ej, errJ := loadJSON()
	ec, errC := loadCF()
	x.Classf("defect=%s", c.Defect)
	if c.Defect != "" {
		// a defect in a block that is not rendered does not exist
		if !defectRendered(c) {
			x.Class("defect-not-rendered")
			return nil
		}
		if c.Defect == "surplus:value" {
			if surplusAt == "" {
				x.Class("defect-not-rendered")
				return nil
			}
			if errJ != nil {
				return fmt.Errorf("valid JSON config failed to provision: %v\n%s", errJ, jsonCfg)
			}
			if errC == nil {
				return fmt.Errorf("Caddyfile config with a second value on the line of %s was accepted (the value is ignored) instead of being rejected at load time:\n%s", surplusAt, cfBody)
			}
			x.Classf("surplus-value-at=%s", surplusAt)
			x.NonTrivial(fmt.Sprintf("neg|surplus|%s|%d", surplusAt, c.Typo/7%4))
			return nil
		}
		if errJ == nil {
			return fmt.Errorf("JSON config with %s was accepted instead of being rejected at load time:\n%s", c.Defect, jsonCfg)
		}
		if errC == nil {
			return fmt.Errorf("Caddyfile config with %s was accepted instead of being rejected at load time:\n%s", c.Defect, cfBody)
		}
		x.NonTrivial(fmt.Sprintf("neg|%s|%d|%d|%v%v%v", c.Defect, c.Typo%4, c.Typo%3, c.CRLBlock, c.CDPBlock, c.OCSPBlock))
		return nil
	}
	if errJ != nil {
		return fmt.Errorf("valid JSON config failed to provision: %v\n%s", errJ, jsonCfg)
	}
	if errC != nil {
		return fmt.Errorf("valid Caddyfile config failed to load: %v\n%s", errC, cfBody)
	}
	want := expected(c, f, enabled)
	if d := diffEff(want, *ej); d != "" {
		return fmt.Errorf("JSON: effective configuration differs from the settings (%s)\nconfig: %s", d, jsonCfg)
	}
	if d := diffEff(want, *ec); d != "" {
		return fmt.Errorf("Caddyfile: effective configuration differs from the settings (%s)\nconfig:\n%s", d, cfBody)
	}
	if d := diffEff(*ej, *ec); d != "" {
		return fmt.Errorf("Caddyfile and JSON forms of the same settings yield different validators (%s)", d)
	}
	// the configuration is a function of the options (and of what the referenced files contain NOW), not of what an
	// earlier load of the process saw: the trusted responder certificates and the additional trusted signer are
	// replaced by other certificates under the same file names, then both forms are loaded again
	replaced := 0
	for i := range f.resp {
		ca := world.NewSimplePKI(name+" resp", []string{"p256e", "p384"}[i%2], "").Root
		os.WriteFile(f.resp[i], ca.PEM(), 0o600)
		f.respDER[i] = ca.Cert.Raw
		replaced++
	}
	for i := 1; i < len(f.signers); i++ {
		ca := world.NewSimplePKI(name, "p256f", "").Root
		os.WriteFile(f.signers[i], ca.PEM(), 0o600)
		f.signerDER[i] = ca.Cert.Raw
		replaced++
	}
	if replaced > 0 {
		ej2, errJ2 := loadJSON()
		ec2, errC2 := loadCF()
		if errJ2 != nil || errC2 != nil {
			return fmt.Errorf("after %d trusted certificate files were replaced by other valid certificates the same configuration no longer loads: json: %v, caddyfile: %v", replaced, errJ2, errC2)
		}
		want2 := expected(c, f, enabled)
		if d := diffEff(want2, *ej2); d != "" {
			return fmt.Errorf("JSON, second load after %d trusted certificate files were replaced under the same names: effective configuration differs from the settings (%s): an earlier load of the process decides what is trusted\nconfig: %s", replaced, d, jsonCfg)
		}
		if d := diffEff(want2, *ec2); d != "" {
			return fmt.Errorf("Caddyfile, second load after %d trusted certificate files were replaced under the same names: effective configuration differs from the settings (%s)\nconfig:\n%s", replaced, d, cfBody)
		}
		x.Class("reloaded-after-trusted-files-replaced")
	}
	set := 0
	for _, o := range []Opt{c.Mode, c.Storage, c.Interval, c.Sig, c.Fetch, c.CDPStrict, c.Cache, c.AIAStrict} {
		if o.Set {
			set++
		}
	}
	set += min(c.URLs, 1) + min(c.Files, 1) + min(c.Signers, 1) + min(c.Responders, 1)
	x.Classf("options-set=%d", set)
	if set >= 3 {
		x.NonTrivial(fmt.Sprintf("%+v", struct {
			A, B, C, D, E, F, G, H Opt
			U, Fi, S, R            int
			X, Y, Z                bool
		}{c.Mode, c.Storage, c.Interval, c.Sig, c.Fetch, c.CDPStrict, c.Cache, c.AIAStrict, c.URLs, c.Files, c.Signers, c.Responders, c.CRLBlock, c.CDPBlock, c.OCSPBlock}))
	}
	return nil
}

var surplusRe = regexp.MustCompile(`^\s*(mode|work_dir|storage_type|update_interval|signature_validation_mode|crl_fetch_mode|crl_cdp_strict|default_cache_duration|ocsp_aia_strict|crl_url|crl_file|trusted_signature_cert_file|trusted_responder_cert_file)\s+\S`)

func defectRendered(c Case) bool {
	switch c.Defect {
	case "misspelt:crl", "invalid:storage_type", "invalid:update_interval", "invalid:signature_validation_mode", "invalid:trusted_signature_cert":
		return c.CRLBlock
	case "invalid:work_dir":
		return c.CRLBlock && crlEnabled(c.Mode)
	case "misspelt:cdp", "invalid:crl_fetch_mode", "invalid:crl_cdp_strict":
		return c.CRLBlock && c.CDPBlock
	case "misspelt:ocsp", "invalid:default_cache_duration", "invalid:ocsp_aia_strict", "invalid:trusted_responder_cert":
		return c.OCSPBlock
	}
	return true
}

func expected(c Case, f files, enabled bool) Eff {
	e := Eff{CRL: enabled}
	modes := map[string]config.RevocationCheckMode{"prefer_ocsp": config.RevocationCheckModePreferOCSP, "prefer_crl": config.RevocationCheckModePreferCRL,
		"ocsp_only": config.RevocationCheckModeOCSPOnly, "crl_only": config.RevocationCheckModeCRLOnly, "disabled": config.RevocationCheckModeDisabled}
	e.Mode = config.RevocationCheckModePreferOCSP // documented default
	if c.Mode.Set {
		e.Mode = modes[c.Mode.Val]
	}
	if enabled && c.CRLBlock {
		e.WorkDir = filepath.Clean(f.wd)
		e.Storage = config.Disk // default
		if c.Storage.Set && c.Storage.Val == "memory" {
			e.Storage = config.Memory
		}
		e.Interval = 30 * time.Minute
		if c.Interval.Set {
			e.Interval, _ = time.ParseDuration(c.Interval.Val)
		}
		e.Sig = config.SignatureValidationModeVerify
		if c.Sig.Set {
			e.Sig = map[string]config.SignatureValidationMode{"none": config.SignatureValidationModeNone, "verify": config.SignatureValidationModeVerify, "verify_log": config.SignatureValidationModeVerifyLog}[c.Sig.Val]
		}
		e.URLs, e.Files, e.Signers = append([]string{}, f.crlURLs...), append([]string{}, f.crlFiles...), f.signerDER
		e.Fetch = config.CRLFetchModeActively
		if c.CDPBlock && c.Fetch.Set && c.Fetch.Val == "fetch_background" {
			e.Fetch = config.CRLFetchModeBackground
		}
		e.CDPStrict = c.CDPBlock && c.CDPStrict.Set && c.CDPStrict.Val == "true"
	}
	if c.OCSPBlock {
		if c.Cache.Set {
			e.Cache, _ = time.ParseDuration(c.Cache.Val)
		}
		e.AIAStrict = c.AIAStrict.Set && c.AIAStrict.Val == "true"
		e.Responders = f.respDER
	}
	return e
}

func diffEff(a, b Eff) string {
	var d []string
	add := func(name string, x, y any) {
		if !reflect.DeepEqual(x, y) {
			d = append(d, fmt.Sprintf("%s: %v vs %v", name, x, y))
		}
	}
	add("mode", a.Mode, b.Mode)
	add("work_dir", a.WorkDir, b.WorkDir)
	add("storage_type", a.Storage, b.Storage)
	add("update_interval", a.Interval, b.Interval)
	add("signature_validation_mode", a.Sig, b.Sig)
	add("crl_urls", norm(a.URLs), norm(b.URLs))
	add("crl_files", norm(a.Files), norm(b.Files))
	add("crl_fetch_mode", a.Fetch, b.Fetch)
	add("crl_cdp_strict", a.CDPStrict, b.CDPStrict)
	add("default_cache_duration", a.Cache, b.Cache)
	add("ocsp_aia_strict", a.AIAStrict, b.AIAStrict)
	if !eqDER(a.Signers, b.Signers) {
		d = append(d, fmt.Sprintf("trusted signature certs: %d vs %d", len(a.Signers), len(b.Signers)))
	}
	if !eqDER(a.Responders, b.Responders) {
		d = append(d, fmt.Sprintf("trusted responder certs: %d vs %d", len(a.Responders), len(b.Responders)))
	}
	return strings.Join(d, "; ")
}

func norm(s []string) []string {
	if len(s) == 0 {
		return nil
	}
	return s
}

func eqDER(a, b [][]byte) bool {
	if len(a) != len(b) {
		return false
	}
	for i := range a {
		if !bytes.Equal(a[i], b[i]) {
			return false
		}
	}
	return true
}

// ---------------------------------------------------------------- renderers

func val(c Case, option, good string) string {
	if c.Defect == "invalid:"+option {
		if option == "update_interval" && c.Typo%3 != 0 {
			// an interval that parses as a duration but cannot drive a refresh schedule
			return []string{"", "0s", "-5m"}[c.Typo%3]
		}
		return map[string]string{"mode": "prefer-ocsp", "storage_type": "ssd", "update_interval": "10 minutes", "signature_validation_mode": "strict",
			"crl_fetch_mode": "lazy", "crl_cdp_strict": "maybe", "default_cache_duration": "soon", "ocsp_aia_strict": "yes please"}[option]
	}
	return good
}

func renderJSON(c Case, f files) json.RawMessage {
	top := map[string]any{}
	if c.Mode.Set || c.Defect == "invalid:mode" {
		top["mode"] = val(c, "mode", orDefault(c.Mode, "prefer_ocsp"))
	}
	if c.CRLBlock {
		crl := map[string]any{"work_dir": f.wd}
		if c.Defect == "invalid:work_dir" {
			crl["work_dir"] = filepath.Join(f.wd, "does", "not", "exist")
		}
		if c.Storage.Set || c.Defect == "invalid:storage_type" {
			crl["storage_type"] = val(c, "storage_type", orDefault(c.Storage, "disk"))
		}
		if c.Interval.Set || c.Defect == "invalid:update_interval" {
			crl["update_interval"] = val(c, "update_interval", orDefault(c.Interval, "30m"))
		}
		if c.Sig.Set || c.Defect == "invalid:signature_validation_mode" {
			crl["signature_validation_mode"] = val(c, "signature_validation_mode", orDefault(c.Sig, "verify"))
		}
		if len(f.crlURLs) > 0 {
			crl["crl_urls"] = f.crlURLs
		}
		if len(f.crlFiles) > 0 {
			crl["crl_files"] = f.crlFiles
		}
		signers := append([]string{}, f.signers...)
		if c.Defect == "invalid:trusted_signature_cert" {
			signers = append(signers, filepath.Join(f.wd, "no-such-cert.pem"))
		}
		if len(signers) > 0 {
			crl["trusted_signature_certs_files"] = signers
		}
		if c.CDPBlock {
			cdp := map[string]any{}
			if c.Fetch.Set || c.Defect == "invalid:crl_fetch_mode" {
				cdp["crl_fetch_mode"] = val(c, "crl_fetch_mode", orDefault(c.Fetch, "fetch_actively"))
			}
			if c.CDPStrict.Set {
				cdp["crl_cdp_strict"] = c.CDPStrict.Val == "true"
			}
			if c.Defect == "invalid:crl_cdp_strict" {
				cdp["crl_cdp_strict"] = "maybe"
			}
			if c.Defect == "misspelt:cdp" {
				cdp[typo("crl_cdp_strict", c.Typo)] = true
			}
			crl["cdp_config"] = cdp
		}
		if c.Defect == "misspelt:crl" {
			crl[typo("storage_type", c.Typo)] = "memory"
		}
		top["crl_config"] = crl
	}
	if c.OCSPBlock {
		oc := map[string]any{}
		if c.Cache.Set || c.Defect == "invalid:default_cache_duration" {
			oc["default_cache_duration"] = val(c, "default_cache_duration", orDefault(c.Cache, "0s"))
		}
		if c.AIAStrict.Set {
			oc["ocsp_aia_strict"] = c.AIAStrict.Val == "true"
		}
		if c.Defect == "invalid:ocsp_aia_strict" {
			oc["ocsp_aia_strict"] = "yes please"
		}
		resp := append([]string{}, f.resp...)
		if c.Defect == "invalid:trusted_responder_cert" {
			resp = append(resp, filepath.Join(f.wd, "no-such-cert.pem"))
		}
		if len(resp) > 0 {
			oc["trusted_responder_certs_files"] = resp
		}
		if c.Defect == "misspelt:ocsp" {
			oc[typo("ocsp_aia_strict", c.Typo)] = true
		}
		top["ocsp_config"] = oc
	}
	if c.Defect == "misspelt:top" {
		top[typo("mode", c.Typo)] = "crl_only"
	}
	b, _ := json.Marshal(top)
	return b
}

func orDefault(o Opt, d string) string {
	if o.Set {
		return o.Val
	}
	return d
}

// shuffle orders lines by the case's permutation seed (the Caddyfile must not depend on option order).
func shuffle(lines []string, order []int, salt int) []string {
	out := append([]string{}, lines...)
	for i := len(out) - 1; i > 0; i-- {
		j := (order[(i+salt)%len(order)] + salt) % (i + 1)
		out[i], out[j] = out[j], out[i]
	}
	return out
}

func renderCaddyfile(c Case, f files) string {
	var top []string
	if c.Mode.Set || c.Defect == "invalid:mode" {
		top = append(top, "mode "+val(c, "mode", orDefault(c.Mode, "prefer_ocsp")))
	}
	if c.CRLBlock {
		wd := f.wd
		if c.Defect == "invalid:work_dir" {
			wd = filepath.Join(f.wd, "does", "not", "exist")
		}
		crl := []string{"work_dir " + wd}
		if c.Storage.Set || c.Defect == "invalid:storage_type" {
			crl = append(crl, "storage_type "+val(c, "storage_type", orDefault(c.Storage, "disk")))
		}
		if c.Interval.Set || c.Defect == "invalid:update_interval" {
			crl = append(crl, "update_interval \""+val(c, "update_interval", orDefault(c.Interval, "30m"))+"\"")
		}
		if c.Sig.Set || c.Defect == "invalid:signature_validation_mode" {
			crl = append(crl, "signature_validation_mode "+val(c, "signature_validation_mode", orDefault(c.Sig, "verify")))
		}
		for _, u := range f.crlURLs {
			crl = append(crl, "crl_url "+u)
		}
		for _, u := range f.crlFiles {
			crl = append(crl, "crl_file "+u)
		}
		for _, u := range f.signers {
			crl = append(crl, "trusted_signature_cert_file "+u)
		}
		if c.Defect == "invalid:trusted_signature_cert" {
			crl = append(crl, "trusted_signature_cert_file "+filepath.Join(f.wd, "no-such-cert.pem"))
		}
		if c.CDPBlock {
			var cdp []string
			if c.Fetch.Set || c.Defect == "invalid:crl_fetch_mode" {
				cdp = append(cdp, "crl_fetch_mode "+val(c, "crl_fetch_mode", orDefault(c.Fetch, "fetch_actively")))
			}
			if c.CDPStrict.Set && c.Defect != "invalid:crl_cdp_strict" {
				cdp = append(cdp, "crl_cdp_strict "+c.CDPStrict.Val)
			}
			if c.Defect == "invalid:crl_cdp_strict" {
				cdp = append(cdp, "crl_cdp_strict maybe")
			}
			if c.Defect == "misspelt:cdp" {
				cdp = append(cdp, typo("crl_cdp_strict", c.Typo)+" true")
			}
			crl = append(crl, "cdp_config {\n        "+strings.Join(shuffle(cdp, c.Order, 3), "\n        ")+"\n      }")
		}
		if c.Defect == "misspelt:crl" {
			crl = append(crl, typo("storage_type", c.Typo)+" memory")
		}
		// keep list options in their relative order (lists are ordered), shuffle the rest around them
		top = append(top, "crl_config {\n      "+strings.Join(stableShuffle(crl, c.Order), "\n      ")+"\n    }")
	}
	if c.OCSPBlock {
		var oc []string
		if c.Cache.Set || c.Defect == "invalid:default_cache_duration" {
			oc = append(oc, "default_cache_duration \""+val(c, "default_cache_duration", orDefault(c.Cache, "0s"))+"\"")
		}
		if c.AIAStrict.Set && c.Defect != "invalid:ocsp_aia_strict" {
			oc = append(oc, "ocsp_aia_strict "+c.AIAStrict.Val)
		}
		if c.Defect == "invalid:ocsp_aia_strict" {
			oc = append(oc, "ocsp_aia_strict \"yes please\"")
		}
		for _, u := range f.resp {
			oc = append(oc, "trusted_responder_cert_file "+u)
		}
		if c.Defect == "invalid:trusted_responder_cert" {
			oc = append(oc, "trusted_responder_cert_file "+filepath.Join(f.wd, "no-such-cert.pem"))
		}
		if c.Defect == "misspelt:ocsp" {
			oc = append(oc, typo("ocsp_aia_strict", c.Typo)+" true")
		}
		top = append(top, "ocsp_config {\n      "+strings.Join(stableShuffle(oc, c.Order), "\n      ")+"\n    }")
	}
	if c.Defect == "misspelt:top" {
		top = append(top, typo("mode", c.Typo)+" crl_only")
	}
	return "    " + strings.Join(shuffle(top, c.Order, 7), "\n    ")
}

// stableShuffle permutes lines but keeps repeated list options (crl_url, crl_file, *_cert_file) in their relative order.
func stableShuffle(lines []string, order []int) []string {
	sh := shuffle(lines, order, 1)
	// restore relative order of list items per key
	for _, key := range []string{"crl_url ", "crl_file ", "trusted_signature_cert_file ", "trusted_responder_cert_file "} {
		var orig []string
		for _, l := range lines {
			if strings.HasPrefix(l, key) {
				orig = append(orig, l)
			}
		}
		k := 0
		for i, l := range sh {
			if strings.HasPrefix(l, key) {
				sh[i] = orig[k]
				k++
			}
		}
	}
	return sh
}

var spec = ev.Spec[Case]{
	ID:          "C19",
	Gen:         genCase,
	Run:         runCase,
	Rule:        "rapid draws an option assignment: each of mode, storage_type, update_interval, signature_validation_mode, crl_fetch_mode, crl_cdp_strict, default_cache_duration, ocsp_aia_strict is omitted or takes one of its valid values; 0..2 crl_urls, crl_files, trusted signature cert files, trusted responder cert files; the crl/cdp/ocsp blocks may be present but empty or (where the mode allows) absent; the Caddyfile option order is permuted. A quarter of the cases carry one defect: a misspelt key at one of four nesting levels (4 typo styles) or an invalid value for one of 11 options. Both renderings go through caddy's own path (JSON: LoadModuleByID with strict decoding + Provision; Caddyfile: caddytls.ClientAuthentication.UnmarshalCaddyfile -> emitted JSON -> LoadModuleByID). Oracles: valid assignments provision in both syntaxes; the effective configuration (parsed mode, storage, interval, signature mode, lists, certificates by DER, fetch mode, strict flags, cache duration) equals the settings with documented defaults for omitted options, and is identical between the syntaxes; a defective config is rejected in BOTH syntaxes. Non-trivial: >= 3 options set, or a defect; distinct by assignment. After a valid assignment was checked, the trusted responder certificate files and the additional trusted signer file are replaced by other certificates under the same names and both forms are loaded again: the effective configuration must follow the files' present content.",
	Assumptions: []string{"configured CRLs are signed by a configured trusted signer so that every valid assignment is provisionable"},
}

func TestMain(m *testing.M) {
	world.QuietCaddy()
	code := m.Run()
	world.Cleanup()
	os.Exit(code)
}

func TestProp(t *testing.T)   { ev.Check(t, spec) }
func TestReplay(t *testing.T) { ev.Replay(t, spec) }
