// Package ev is the glue between a property package and the driver: it runs a
// property over generated cases (rapid) or an enumerated case list, classifies
// and fingerprints cases, keeps samples, writes the in-flight case and the
// shrunk failing case to disk and flushes per-shard evidence.
package ev

import (
	"crypto/sha256"
	"encoding/hex"
	"encoding/json"
	"fmt"
	"os"
	"path/filepath"
	"runtime/debug"
	"sort"
	"strconv"
	"strings"
	"sync"
	"testing"

	"pgregory.net/rapid"
)

// Ctx is handed to a property run; it records what the case was like.
type Ctx struct {
	mu          sync.Mutex
	classes     map[string]int
	fingerprint string
	nontrivial  bool
	excluded    map[string]int
	known       map[string]string
	notes       []string
}

// NewCtx returns an empty context (for replays that bypass Check/Enumerate).
func NewCtx() *Ctx {
	return &Ctx{classes: map[string]int{}, excluded: map[string]int{}, known: map[string]string{}}
}

// Class increments a classification counter for this case.
func (c *Ctx) Class(name string) {
	c.mu.Lock()
	c.classes[name]++
	c.mu.Unlock()
}

// Classf is Class with formatting.
func (c *Ctx) Classf(f string, a ...any) { c.Class(fmt.Sprintf(f, a...)) }

// NonTrivial marks the case non-trivial; fp distinguishes cases (the hash of fp
// is what distinct_nontrivial counts).
func (c *Ctx) NonTrivial(fp string) {
	c.mu.Lock()
	c.nontrivial = true
	c.fingerprint = fp
	c.mu.Unlock()
}

// Excluded counts a draw that was steered away from a known finding.
func (c *Ctx) Excluded(key string) {
	c.mu.Lock()
	c.excluded[key]++
	c.mu.Unlock()
}

// Notef adds a line that is printed with a violation.
func (c *Ctx) Notef(f string, a ...any) {
	c.mu.Lock()
	c.notes = append(c.notes, fmt.Sprintf(f, a...))
	c.mu.Unlock()
}

// KnownHit records that a failure matched a listed known finding (key) instead
// of being reported as a violation. It returns false if the key is not listed,
// in which case the caller must report the violation.
func (c *Ctx) KnownHit(key, what string) bool {
	if _, ok := KnownFindings()[key]; !ok {
		return false
	}
	c.mu.Lock()
	c.known[key] = what
	c.mu.Unlock()
	return true
}

// Spec describes a property check.
type Spec[C any] struct {
	ID          string
	Gen         func(t *rapid.T) C
	Run         func(c C, x *Ctx) error
	Rule        string
	Assumptions []string
	// Inflight: write every case to disk before running it (for code that may
	// kill or wedge the process).
	Inflight bool
	// SampleEvery keeps memory bounded for cheap properties.
	MaxSamples int
}

type recorder struct {
	mu          sync.Mutex
	evaluations int
	classes     map[string]int
	excluded    map[string]int
	known       map[string]string
	fps         map[string]struct{}
	samples     []json.RawMessage
	trivSamples []json.RawMessage
	violations  int
	exhaustive  bool
}

var rec = &recorder{classes: map[string]int{}, excluded: map[string]int{}, known: map[string]string{}, fps: map[string]struct{}{}}

func envInt(name string, def int) int {
	if v := os.Getenv(name); v != "" {
		if n, err := strconv.Atoi(v); err == nil {
			return n
		}
	}
	return def
}

// Shard returns this process's shard index and the shard count.
func Shard() (int, int) { return envInt("VERIF_SHARD", 0), envInt("VERIF_SHARDS", 1) }

// Tier returns "quick" or "thorough".
func Tier() string {
	if os.Getenv("VERIF_TIER") == "thorough" {
		return "thorough"
	}
	return "quick"
}

// Thorough reports whether the thorough tier is running.
func Thorough() bool { return Tier() == "thorough" }

// Seed returns VERIF_SEED (default 1).
func Seed() int { return envInt("VERIF_SEED", 1) }

func outDir() string {
	d := os.Getenv("VERIF_OUT")
	if d == "" {
		d = filepath.Join(os.TempDir(), "verif-out")
	}
	os.MkdirAll(d, 0o755)
	return d
}

func replayDir() string {
	d := os.Getenv("VERIF_REPLAY_DIR")
	if d == "" {
		d = "/verif/replays"
	}
	os.MkdirAll(d, 0o755)
	return d
}

type replayFile struct {
	Property string          `json:"property"`
	Phase    string          `json:"phase,omitempty"`
	Error    string          `json:"error"`
	Notes    []string        `json:"notes,omitempty"`
	Case     json.RawMessage `json:"case"`
}

func phase() string { return os.Getenv("VERIF_PHASE") }

func execute[C any](s Spec[C], c C) (err error, x *Ctx) {
	x = &Ctx{classes: map[string]int{}, excluded: map[string]int{}, known: map[string]string{}}
	shard, _ := Shard()
	var raw json.RawMessage
	if s.Inflight {
		raw, _ = json.Marshal(c)
		rf, _ := json.Marshal(replayFile{Property: s.ID, Phase: phase(), Error: "in-flight (process died or hung while running this case)", Case: raw})
		os.WriteFile(filepath.Join(outDir(), fmt.Sprintf("inflight-%s-%d.json", phase(), shard)), rf, 0o644)
	}
	func() {
		defer func() {
			if r := recover(); r != nil {
				err = fmt.Errorf("panic in the calling goroutine: %v\n%s", r, debug.Stack())
			}
		}()
		err = s.Run(c, x)
	}()
	if s.Inflight {
		os.Remove(filepath.Join(outDir(), fmt.Sprintf("inflight-%s-%d.json", phase(), shard)))
	}
	rec.mu.Lock()
	defer rec.mu.Unlock()
	rec.evaluations++
	for k, v := range x.classes {
		rec.classes[k] += v
	}
	for k, v := range x.excluded {
		rec.excluded[k] += v
	}
	for k, v := range x.known {
		rec.known[k] = v
	}
	maxS := s.MaxSamples
	if maxS == 0 {
		maxS = 6
	}
	if x.nontrivial {
		h := sha256.Sum256([]byte(x.fingerprint))
		fp := hex.EncodeToString(h[:8])
		if _, seen := rec.fps[fp]; !seen {
			rec.fps[fp] = struct{}{}
			if len(rec.samples) < maxS {
				if raw == nil {
					raw, _ = json.Marshal(c)
				}
				if len(raw) > 6000 {
					raw, _ = json.Marshal(map[string]any{"truncated_case_json": string(raw[:6000]), "fingerprint": x.fingerprint})
				}
				rec.samples = append(rec.samples, raw)
			}
		}
	} else if len(rec.trivSamples) < 2 {
		if raw == nil {
			raw, _ = json.Marshal(c)
		}
		if len(raw) <= 6000 {
			rec.trivSamples = append(rec.trivSamples, raw)
		}
	}
	if err != nil {
		rec.violations++
		if raw == nil {
			raw, _ = json.Marshal(c)
		}
		rf, _ := json.MarshalIndent(replayFile{Property: s.ID, Phase: phase(), Error: err.Error(), Notes: x.notes, Case: raw}, "", " ")
		os.WriteFile(filepath.Join(replayDir(), fmt.Sprintf("%s-%s-s%d.json", s.ID, phaseOr("prop"), shard)), rf, 0o644)
	}
	return err, x
}

func phaseOr(d string) string {
	if p := phase(); p != "" {
		return p
	}
	return d
}

// Flush writes the per-shard evidence file. Call once at the end of the test.
func Flush(id, rule string, assumptions []string) {
	rec.mu.Lock()
	defer rec.mu.Unlock()
	shard, _ := Shard()
	fps := make([]string, 0, len(rec.fps))
	for k := range rec.fps {
		fps = append(fps, k)
	}
	sort.Strings(fps)
	samples := rec.samples
	if len(samples) == 0 {
		samples = rec.trivSamples
	}
	out := map[string]any{
		"property_id": id, "phase": phase(), "shard": shard,
		"evaluations": rec.evaluations, "classes": rec.classes, "excluded": rec.excluded,
		"known": rec.known, "fingerprints": fps, "samples": samples,
		"violations": rec.violations, "rule": rule, "assumptions": assumptions,
		"exhaustive": rec.exhaustive,
	}
	b, _ := json.Marshal(out)
	os.WriteFile(filepath.Join(outDir(), fmt.Sprintf("shard-%s-%d.json", phaseOr("prop"), shard)), b, 0o644)
}

// Check runs the property over rapid-generated cases.
func Check[C any](t *testing.T, s Spec[C]) {
	defer Flush(s.ID, s.Rule, s.Assumptions)
	rapid.Check(t, func(rt *rapid.T) {
		c := s.Gen(rt)
		if err, _ := execute(s, c); err != nil {
			rt.Fatalf("%s violated: %v", s.ID, err)
		}
	})
}

// Enumerate runs the property over an explicit case list (this shard's slice of
// it); exhaustive marks the evidence as a complete enumeration.
func Enumerate[C any](t *testing.T, s Spec[C], cases []C, exhaustive bool) {
	defer Flush(s.ID, s.Rule, s.Assumptions)
	rec.exhaustive = exhaustive
	shard, shards := Shard()
	for i, c := range cases {
		if i%shards != shard {
			continue
		}
		if err, _ := execute(s, c); err != nil {
			t.Errorf("%s violated: %v", s.ID, err)
			if !Thorough() {
				return
			}
			return
		}
	}
}

// Replay re-runs the case stored in the file named by VERIF_REPLAY.
func Replay[C any](t *testing.T, s Spec[C]) {
	path := os.Getenv("VERIF_REPLAY")
	if path == "" {
		t.Skip("VERIF_REPLAY not set")
	}
	b, err := os.ReadFile(path)
	if err != nil {
		t.Fatalf("read replay: %v", err)
	}
	var rf replayFile
	if err := json.Unmarshal(b, &rf); err != nil {
		t.Fatalf("parse replay: %v", err)
	}
	var c C
	if err := json.Unmarshal(rf.Case, &c); err != nil {
		t.Fatalf("parse case: %v", err)
	}
	os.Setenv("VERIF_REPLAY_DIR", filepath.Join(outDir(), "replay-of-replay"))
	s.Inflight = false
	if err, x := execute(s, c); err != nil {
		t.Fatalf("%s violated on replay: %v\n%s", s.ID, err, strings.Join(x.notes, "\n"))
	}
}

var (
	knownOnce sync.Once
	knownMap  map[string]string
)

// KnownFindings parses /verif/known-findings.txt: lines
// "known: property=Cxx key=<k> <what fails>". Never written at run time.
func KnownFindings() map[string]string {
	knownOnce.Do(func() {
		knownMap = map[string]string{}
		p := os.Getenv("VERIF_KNOWN")
		if p == "" {
			p = "/verif/known-findings.txt"
		}
		b, err := os.ReadFile(p)
		if err != nil {
			return
		}
		for _, line := range strings.Split(string(b), "\n") {
			line = strings.TrimSpace(line)
			if !strings.HasPrefix(line, "known:") {
				continue
			}
			f := strings.Fields(line)
			var key string
			for _, w := range f {
				if strings.HasPrefix(w, "key=") {
					key = strings.TrimPrefix(w, "key=")
				}
			}
			if key != "" {
				knownMap[key] = line
			}
		}
	})
	return knownMap
}

// IsKnown reports whether a finding key is listed.
func IsKnown(key string) bool { _, ok := KnownFindings()[key]; return ok }
