package c06

import (
	"bytes"
	"crypto/x509/pkix"
	"fmt"
	"math/big"
	"os"
	"path/filepath"
	"reflect"
	"testing"

	"verifharness/ev"
	"verifharness/gen"

	"github.com/gr33nbl00d/caddy-revocation-validator/core"
	"github.com/gr33nbl00d/caddy-revocation-validator/crl/crlreader"
	"pgregory.net/rapid"
)

// Case is one generated CRL (inside or, for negative cases, just outside the
// supported profile).
type Case struct {
	Spec     gen.CRLSpec `json:"spec"`
	Key      string      `json:"key"`
	Negative string      `json:"negative,omitempty"` // "", "version", "critical-unknown", "delta", "idp"
	Aim      string      `json:"aim,omitempty"`      // which element boundary was aimed at a window edge
	AimOff   int         `json:"aim_off,omitempty"`
}

type recorder struct {
	meta    *crlreader.CRLMetaInfo
	entries []*crlreader.CRLEntry
	ext     *crlreader.ExtendedCRLMetaInfo
	order   []string
}

func (r *recorder) StartUpdateCrl(m *crlreader.CRLMetaInfo) error {
	r.meta = m
	r.order = append(r.order, "start")
	return nil
}
func (r *recorder) InsertRevokedCertificate(e *crlreader.CRLEntry) error {
	r.entries = append(r.entries, e)
	if len(r.order) == 0 || r.order[len(r.order)-1] != "insert" {
		r.order = append(r.order, "insert")
	}
	return nil
}
func (r *recorder) UpdateExtendedMetaInfo(i *crlreader.ExtendedCRLMetaInfo) error {
	r.ext = i
	r.order = append(r.order, "ext")
	return nil
}
func (r *recorder) UpdateSignatureCertificate(*core.CertificateChainEntry) error { return nil }

func sizeClass(n int) string {
	switch {
	case n < 0x80:
		return "short"
	case n < 0x100:
		return "0x81"
	case n < 0x10000:
		return "0x82"
	case n < 0x1000000:
		return "0x83"
	}
	return "0x84"
}

// layout computes the absolute DER offsets of element boundaries.
type layout struct {
	entriesStart int   // offset of first entry (0 if none)
	entryOff     []int // offset of each entry
	extsStart    int   // offset of [0] crlExtensions (0 if none)
	thisUpdate   int
	total        int
	listLen      int
	tbsLen       int
}

func computeLayout(c *Case) layout {
	s := &c.Spec
	p, err := s.BuildParts(gen.K(c.Key))
	if err != nil {
		panic(err)
	}
	der := p.Assemble()
	var l layout
	l.total = len(der)
	outerHdr := len(der) - len(p.TBS) - len(p.OuterAlg) - len(p.SigBits)
	tbsBody := len(p.TBS) - gen.HeaderLen(len(p.TBS)-gen.HeaderLen(0))
	_ = tbsBody
	// walk the tbs manually
	tbs := p.TBS
	hdr := tlvHeader(tbs)
	l.tbsLen = len(tbs) - hdr
	pos := outerHdr + hdr
	body := tbs[hdr:]
	off := 0
	next := func() (tag byte, h, n int) {
		tag = body[off]
		h = tlvHeader(body[off:])
		n = tlvLen(body[off:])
		return
	}
	if s.Version >= 0 {
		_, h, n := next()
		off += h + n
	}
	_, h, n := next() // alg
	off += h + n
	_, h, n = next() // issuer
	off += h + n
	l.thisUpdate = pos + off
	_, h, n = next()
	off += h + n
	if s.NextUpdate != 0 {
		_, h, n = next()
		off += h + n
	}
	if len(s.Entries) > 0 {
		_, h, n = next()
		l.listLen = n
		l.entriesStart = pos + off + h
		eo := off + h
		for range s.Entries {
			l.entryOff = append(l.entryOff, pos+eo)
			eh := tlvHeader(body[eo:])
			en := tlvLen(body[eo:])
			eo += eh + en
		}
		off += h + n
	}
	if s.HasExts {
		l.extsStart = pos + off
	}
	return l
}

func tlvHeader(b []byte) int {
	if b[1]&0x80 == 0 {
		return 2
	}
	return 2 + int(b[1]&0x7f)
}
func tlvLen(b []byte) int {
	if b[1]&0x80 == 0 {
		return int(b[1])
	}
	n := 0
	for _, x := range b[2 : 2+int(b[1]&0x7f)] {
		n = n<<8 | int(x)
	}
	return n
}

func genCase(t *rapid.T) Case {
	var c Case
	s := &c.Spec
	key, alg := gen.DrawSupportedAlg(t, "sig")
	c.Key = key
	s.SigAlg = alg
	v2 := rapid.IntRange(0, 3).Draw(t, "v2") != 0
	if v2 {
		s.Version = 1
	} else {
		s.Version = -1
	}
	s.ThisUpdate = int64(rapid.IntRange(gen.MinUTC, gen.MaxUTC).Draw(t, "this"))
	if rapid.IntRange(0, 3).Draw(t, "hasnext") != 0 {
		s.NextUpdate = int64(rapid.IntRange(1, gen.MaxUTC).Draw(t, "next"))
	}
	// entry count classes
	var n int
	switch rapid.IntRange(0, 9).Draw(t, "nclass") {
	case 0:
		n = 0
	case 1, 2, 3:
		n = rapid.IntRange(1, 4).Draw(t, "n_small")
	case 4, 5, 6:
		n = rapid.IntRange(5, 120).Draw(t, "n_mid")
	case 7, 8:
		n = rapid.IntRange(121, 400).Draw(t, "n_big")
	default:
		n = rapid.IntRange(401, 1500).Draw(t, "n_huge")
	}
	if n > 150 {
		// draw a template entry set and cycle (keeps the draw budget bounded)
		tpl := make([]gen.Entry, 16)
		for i := range tpl {
			tpl[i] = gen.DrawEntry(t, fmt.Sprintf("tpl%d", i), v2)
		}
		for i := 0; i < n; i++ {
			e := tpl[i%len(tpl)]
			e.SerialHex = fmt.Sprintf("%s%04x", e.SerialHex[:min(len(e.SerialHex), 36)], i)
			s.Entries = append(s.Entries, e)
		}
	} else {
		for i := 0; i < n; i++ {
			s.Entries = append(s.Entries, gen.DrawEntry(t, fmt.Sprintf("e%d", i), v2))
		}
	}
	if v2 && rapid.IntRange(0, 4).Draw(t, "hasexts") != 0 {
		s.HasExts = true
		if rapid.Bool().Draw(t, "x_num") {
			nb := rapid.IntRange(1, 20).Draw(t, "numlen")
			mag := rapid.SliceOfN(rapid.Byte(), nb, nb).Draw(t, "nummag")
			num := gen.CRLNumberExt(mag)
			// an implemented extension may be marked critical; that alone is no reason to reject
			num.Critical = rapid.IntRange(0, 3).Draw(t, "numcrit") == 0
			s.Exts = append(s.Exts, num)
		}
		if rapid.Bool().Draw(t, "x_aki") {
			kid := rapid.SliceOfN(rapid.Byte(), 1, 32).Draw(t, "kid")
			s.Exts = append(s.Exts, gen.Ext{OID: gen.OIDAKI, Value: gen.TLV(0x30, gen.TLV(0x80, kid))})
		}
		if rapid.IntRange(0, 2).Draw(t, "x_unk") == 0 {
			if rapid.IntRange(0, 7).Draw(t, "x_unk_giant") == 0 {
				// extension block in the 3-length-byte class (64..80 KiB)
				s.Exts = append(s.Exts, gen.UnknownExt(rapid.IntRange(65500, 81000).Draw(t, "unklen_g"), false))
			} else {
				s.Exts = append(s.Exts, gen.UnknownExt(rapid.IntRange(0, 5000).Draw(t, "unklen"), false))
			}
		}
		if rapid.IntRange(0, 3).Draw(t, "x_fresh") == 0 {
			s.Exts = append(s.Exts, gen.Ext{OID: gen.OIDFreshest, Value: gen.TLV(0x30)})
		}
		if len(s.Exts) == 0 {
			s.Exts = append(s.Exts, gen.CRLNumberExt([]byte{7}))
		}
	}
	// one entry in the 3-length-byte class (64..80 KiB) now and then
	if v2 && len(s.Entries) > 0 && rapid.IntRange(0, 24).Draw(t, "giant_entry") == 0 {
		i := rapid.IntRange(0, len(s.Entries)-1).Draw(t, "giant_entry_idx")
		s.Entries[i].Exts = []gen.Ext{gen.UnknownExt(rapid.IntRange(65500, 81000).Draw(t, "giant_entry_len"), false)}
	}
	// issuer with optional padding; alignment knob
	pad := 0
	switch rapid.IntRange(0, 12).Draw(t, "padmode") {
	case 0, 1, 2:
	case 3, 4, 5:
		pad = rapid.IntRange(1, 300).Draw(t, "pad_s")
	case 6:
		pad = rapid.IntRange(65400, 81000).Draw(t, "pad_g") // issuer in the 3-length-byte class
	default:
		pad = rapid.IntRange(3800, 4300).Draw(t, "pad_l")
	}
	name := gen.DrawName(t, "iss", 0)
	s.IssuerDER = append(gen.NameSpec{}, name...).DER()
	if pad > 0 {
		withPad := append(append(gen.NameSpec{}, name...), []gen.ATV{{T: "OU", V: string(bytes.Repeat([]byte{'p'}, pad))}})
		s.IssuerDER = withPad.DER()
		// aim a boundary at an offset around the 4 KiB window edge
		target := rapid.IntRange(4090, 4102).Draw(t, "aim_target")
		which := rapid.SampledFrom([]string{"this", "entries", "entry", "exts"}).Draw(t, "aim_which")
		idx := rapid.IntRange(0, 1<<20).Draw(t, "aim_idx")
		for iter := 0; iter < 4; iter++ {
			l := computeLayout(&c)
			off := 0
			switch which {
			case "this":
				off = l.thisUpdate
			case "entries":
				off = l.entriesStart
			case "entry":
				if len(l.entryOff) > 0 {
					off = l.entryOff[idx%len(l.entryOff)]
				}
			case "exts":
				off = l.extsStart
			}
			if off == 0 {
				break
			}
			// want off ≡ target (mod 4096) by changing pad
			delta := ((target-off)%4096 + 4096) % 4096
			if delta == 0 {
				c.Aim, c.AimOff = which, off
				break
			}
			if pad+delta > 4400 && pad < 60000 || pad+delta > 81000 {
				delta -= 4096
			}
			if pad+delta < 1 {
				break
			}
			pad += delta
			withPad = append(append(gen.NameSpec{}, name...), []gen.ATV{{T: "OU", V: string(bytes.Repeat([]byte{'p'}, pad))}})
			s.IssuerDER = withPad.DER()
		}
	}
	// negative cases
	if rapid.IntRange(0, 11).Draw(t, "neg") == 0 {
		c.Negative = rapid.SampledFrom([]string{"version", "critical-unknown", "delta", "idp"}).Draw(t, "negkind")
		switch c.Negative {
		case "version":
			s.Version = rapid.IntRange(2, 255).Draw(t, "badversion")
			if rapid.Bool().Draw(t, "neg_exts") {
				s.HasExts = true
				if len(s.Exts) == 0 {
					s.Exts = []gen.Ext{gen.CRLNumberExt([]byte{1})}
				}
			}
		case "critical-unknown":
			s.Version, s.HasExts = 1, true
			if rapid.Bool().Draw(t, "neg_after_critical_handled") {
				// the unimplemented critical extension comes after an implemented one that is also marked critical
				num := gen.CRLNumberExt([]byte{5})
				num.Critical = true
				s.Exts = []gen.Ext{num}
			}
			s.Exts = append(s.Exts, gen.UnknownExt(4, true))
		case "delta":
			s.Version, s.HasExts = 1, true
			s.Exts = append(s.Exts, gen.Ext{OID: gen.OIDDeltaCRL, Critical: true, Value: []byte{0x02, 0x01, 0x01}})
		case "idp":
			s.Version, s.HasExts = 1, true
			s.Exts = append(s.Exts, gen.Ext{OID: gen.OIDIDP, Critical: true, Value: gen.TLV(0x30, []byte{0x81, 0x01, 0xff})})
		}
	}
	return c
}

var tmpDir string

func TestMain(m *testing.M) {
	d, err := os.MkdirTemp("", "verif-c06-")
	if err != nil {
		panic(err)
	}
	tmpDir = d
	code := m.Run()
	os.RemoveAll(d)
	os.Exit(code)
}

func readWith(path string) (*recorder, *crlreader.CRLReadResult, error) {
	r := &recorder{}
	res, err := crlreader.StreamingCRLFileReader{}.ReadCRL(r, path)
	return r, res, err
}

func compare(c *Case, ref *gen.RefCRL, r *recorder, res *crlreader.CRLReadResult) error {
	if r.meta == nil {
		return fmt.Errorf("StartUpdateCrl was never called")
	}
	if !reflect.DeepEqual(r.meta.Issuer, ref.Issuer) {
		return fmt.Errorf("issuer differs: got %v want %v", r.meta.Issuer, ref.Issuer)
	}
	if !r.meta.ThisUpdate.Equal(ref.List.TBSCertList.ThisUpdate) {
		return fmt.Errorf("thisUpdate differs: got %v want %v", r.meta.ThisUpdate, ref.List.TBSCertList.ThisUpdate)
	}
	wantNext := ref.List.TBSCertList.NextUpdate
	if wantNext.IsZero() != r.meta.NextUpdate.IsZero() || (!wantNext.IsZero() && !wantNext.Equal(r.meta.NextUpdate)) {
		return fmt.Errorf("nextUpdate differs: got %v want %v", r.meta.NextUpdate, wantNext)
	}
	if len(r.entries) != len(ref.Entries) {
		return fmt.Errorf("entry count differs: consumer got %d, reference has %d", len(r.entries), len(ref.Entries))
	}
	for i, e := range r.entries {
		w := ref.Entries[i]
		if e.RevokedCertificate.SerialNumber.Cmp(w.SerialNumber) != 0 {
			return fmt.Errorf("entry %d serial differs: got %v want %v", i, e.RevokedCertificate.SerialNumber, w.SerialNumber)
		}
		if !e.RevokedCertificate.RevocationTime.Equal(w.RevocationTime) {
			return fmt.Errorf("entry %d date differs: got %v want %v", i, e.RevokedCertificate.RevocationTime, w.RevocationTime)
		}
		if !extsEqual(e.RevokedCertificate.Extensions, w.Extensions) {
			return fmt.Errorf("entry %d extensions differ: got %v want %v", i, e.RevokedCertificate.Extensions, w.Extensions)
		}
		if e.Issuer == nil || !reflect.DeepEqual(*e.Issuer, ref.Issuer) {
			return fmt.Errorf("entry %d issuer differs", i)
		}
	}
	if r.ext == nil {
		return fmt.Errorf("UpdateExtendedMetaInfo was never called")
	}
	if (r.ext.CRLNumber == nil) != (ref.Number == nil) || (ref.Number != nil && r.ext.CRLNumber.Cmp(ref.Number) != 0) {
		return fmt.Errorf("cRLNumber differs: got %v want %v", r.ext.CRLNumber, ref.Number)
	}
	if len(r.order) < 2 || r.order[0] != "start" || r.order[len(r.order)-1] != "ext" {
		return fmt.Errorf("callback order %v", r.order)
	}
	if res == nil {
		return fmt.Errorf("nil result without error")
	}
	if res.Issuer == nil || !reflect.DeepEqual(*res.Issuer, ref.Issuer) {
		return fmt.Errorf("result issuer differs")
	}
	var gotExts []pkix.Extension
	if res.CRLExtensions != nil {
		gotExts = *res.CRLExtensions
	}
	if !extsEqual(gotExts, ref.Exts) {
		return fmt.Errorf("crlExtensions differ: got %v want %v", gotExts, ref.Exts)
	}
	if res.Signature == nil || !bytes.Equal(res.Signature.Bytes, ref.SigBits.Bytes) || res.Signature.BitLength != ref.SigBits.BitLength {
		return fmt.Errorf("signature bits differ")
	}
	if want := ref.RefDigest(); !bytes.Equal(res.CalculatedSignature, want) {
		return fmt.Errorf("digest differs from Hash(tbsCertList): got %x want %x", res.CalculatedSignature, want)
	}
	if res.HashAndVerifyStrategy == nil || res.HashAndVerifyStrategy.HashStrategy != gen.SigAlgs[c.Spec.SigAlg].Hash {
		return fmt.Errorf("hash strategy differs")
	}
	return nil
}

func extsEqual(a, b []pkix.Extension) bool {
	if len(a) != len(b) {
		return false
	}
	for i := range a {
		if !a[i].Id.Equal(b[i].Id) || a[i].Critical != b[i].Critical || !bytes.Equal(a[i].Value, b[i].Value) {
			return false
		}
	}
	return true
}

func runCase(c Case, x *ev.Ctx) error {
	der, err := c.Spec.Build(gen.K(c.Key))
	if err != nil {
		panic("generator: " + err.Error())
	}
	// generator soundness guard: whole-document decoder accepts and re-encodes
	ref, err := gen.RefDecode(der)
	if err != nil {
		panic(fmt.Sprintf("generator produced a CRL the reference decoder rejects: %v", err))
	}
	if len(ref.Entries) != len(c.Spec.Entries) {
		panic("generator/reference entry count mismatch")
	}
	encs := map[string][]byte{"der": der, "pem-lf": gen.PEMEncode(der, false), "pem-crlf": gen.PEMEncode(der, true)}
	lay := computeLayout(&c)
	x.Classf("outer-len-%s", sizeClass(lay.total))
	x.Classf("tbs-len-%s", sizeClass(lay.tbsLen))
	if len(c.Spec.Entries) > 0 {
		x.Classf("list-len-%s", sizeClass(lay.listLen))
	}
	if c.Spec.Version < 0 {
		x.Class("v1")
	} else {
		x.Class("v2")
	}
	if !c.Spec.HasExts {
		x.Class("no-crlExtensions")
	}
	if len(c.Spec.Entries) == 0 {
		x.Class("no-entries")
	}
	if c.Spec.NextUpdate == 0 {
		x.Class("no-nextUpdate")
	}
	if c.Aim != "" {
		x.Classf("aimed-%s", c.Aim)
	}
	if c.Negative != "" {
		x.Classf("negative-%s", c.Negative)
	}
	x.Classf("issuer-len-%s", sizeClass(len(c.Spec.IssuerDER)))
	for _, e := range c.Spec.Entries {
		if n := len(e.DER()); n >= 0x10000 {
			x.Class("entry-len-0x83")
			break
		}
	}
	for _, e := range c.Spec.Exts {
		if len(e.Value) >= 0x10000 {
			x.Class("extblock-len-0x83")
			break
		}
	}
	for _, name := range []string{"der", "pem-lf", "pem-crlf"} {
		p := filepath.Join(tmpDir, "crl-"+name)
		if err := os.WriteFile(p, encs[name], 0o600); err != nil {
			panic(err)
		}
		r, res, err := readWith(p)
		if c.Negative != "" {
			if err == nil {
				return fmt.Errorf("[%s] CRL with %s was accepted (must be rejected)", name, c.Negative)
			}
			continue
		}
		if err != nil {
			return fmt.Errorf("[%s] well-formed CRL in the supported profile rejected: %v", name, err)
		}
		if err := compare(&c, ref, r, res); err != nil {
			return fmt.Errorf("[%s] %v", name, err)
		}
	}
	if c.Negative != "" {
		x.NonTrivial(fmt.Sprintf("neg|%s|%d|%v", c.Negative, c.Spec.Version, c.Spec.HasExts))
	} else if len(c.Spec.Entries) >= 1 && (lay.total > 4096 || c.Spec.NextUpdate == 0 || !c.Spec.HasExts || c.Spec.Version < 0) {
		x.NonTrivial(fmt.Sprintf("%s|v%d|n%d|x%v|nu%v|%s|%d|%s", c.Spec.SigAlg, c.Spec.Version, len(c.Spec.Entries), c.Spec.HasExts, c.Spec.NextUpdate != 0, c.Aim, c.AimOff%4096, sizeClass(lay.total)))
	}
	return nil
}

var spec = ev.Spec[Case]{
	ID:   "C06",
	Gen:  genCase,
	Run:  runCase,
	Rule: "rapid draws a CRLSpec (v1/v2, 10 supported signature algorithms, 0..1500 entries with 1..20-byte serials, UTCTime/GeneralizedTime dates, entry extensions, optional nextUpdate / crlExtensions, issuer padding that aims an element boundary at offsets 4090..4102 mod 4096); it is encoded by the harness's own DER writer, checked against encoding/asn1 (soundness guard) and read as DER, PEM-LF and PEM-CRLF by StreamingCRLFileReader; all callbacks and the result are compared with the whole-document reference decode and Hash(tbs). 1 in 12 cases is negative (version 2..255, critical unknown / delta / IDP extension) and must be rejected. Non-trivial: >=1 entry and (size > 4 KiB or an optional field absent), or a negative case; distinct by (alg, version, entry count, optional fields, aimed boundary, size class).",
	Assumptions: []string{
		"encoding/asn1 + crypto hashes are the trusted reference",
		"supported profile as stated in the property: v1/v2, thisUpdate/nextUpdate as UTCTime (< 2050), issuer / entries / extension block <= 80 KiB each",
	},
}

func TestProp(t *testing.T)   { ev.Check(t, spec) }
func TestReplay(t *testing.T) { ev.Replay(t, spec) }

var _ = big.NewInt
