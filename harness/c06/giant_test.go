package c06

import (
	"fmt"
	"os"
	"path/filepath"
	"testing"

	"verifharness/ev"
	"verifharness/gen"
)

// GiantCase is a CRL of at least 16 MiB, so the outer, tbs and list lengths need
// four length bytes (0x84 form).
type GiantCase struct {
	Entries  int    `json:"entries"`
	ExtBytes int    `json:"ext_bytes"` // size of the unknown entry extension (0 = none)
	Key      string `json:"key"`
	Alg      string `json:"alg"`
	Enc      string `json:"enc"` // der | pem-lf | pem-crlf
	V1       bool   `json:"v1,omitempty"`
}

func runGiant(c GiantCase, x *ev.Ctx) error {
	spec := gen.CRLSpec{Version: 1, SigAlg: c.Alg, IssuerDER: gen.CN("giant ca").DER(), ThisUpdate: 1700000000, NextUpdate: 1800000000,
		HasExts: true, Exts: []gen.Ext{gen.CRLNumberExt([]byte{9})}, N: c.Entries}
	if c.V1 {
		spec.Version, spec.HasExts, spec.Exts = -1, false, nil
	}
	spec.EntryFn = func(i int) gen.Entry {
		e := gen.Entry{SerialHex: fmt.Sprintf("%016x%08x", uint64(i)*0x9e3779b97f4a7c15, i), Date: 1600000000 + int64(i)}
		if c.ExtBytes > 0 && !c.V1 {
			e.Exts = []gen.Ext{gen.UnknownExt(c.ExtBytes, false)}
		}
		return e
	}
	// the DER form is written once (ECDSA signatures are randomised); PEM is derived from it
	dp := filepath.Join(tmpDir, "giant.der")
	df, _ := os.Create(dp)
	if err := spec.WriteDER(df, gen.K(c.Key)); err != nil {
		panic(err)
	}
	df.Close()
	defer os.Remove(dp)
	p := dp
	if c.Enc != "der" {
		p = filepath.Join(tmpDir, "giant.pem")
		raw, _ := os.ReadFile(dp)
		if err := os.WriteFile(p, gen.PEMEncode(raw, c.Enc == "pem-crlf"), 0o600); err != nil {
			panic(err)
		}
		defer os.Remove(p)
	}
	der, _ := os.ReadFile(dp)
	if len(der) < 1<<24 {
		panic(fmt.Sprintf("generator: giant CRL is only %d bytes", len(der)))
	}
	ref, err := gen.RefDecode(der)
	if err != nil {
		panic("generator produced a CRL the reference decoder rejects: " + err.Error())
	}
	r, res, err := readWith(p)
	if err != nil {
		return fmt.Errorf("[%s] well-formed CRL of %d bytes (%d entries, 4-byte lengths) rejected: %v", c.Enc, len(der), c.Entries, err)
	}
	cc := Case{Spec: spec, Key: c.Key}
	if err := compare(&cc, ref, r, res); err != nil {
		return fmt.Errorf("[%s] %d-byte CRL: %v", c.Enc, len(der), err)
	}
	x.Class("outer-len-0x84")
	x.NonTrivial(fmt.Sprintf("giant|%d|%d|%s|%s|%v", c.Entries, c.ExtBytes, c.Enc, c.Alg, c.V1))
	return nil
}

var giantSpec = ev.Spec[GiantCase]{
	ID:   "C06",
	Run:  runGiant,
	Rule: "fixed size class: CRLs of >= 16 MiB (4 length bytes at outer / tbs / list level), written by the streaming encoder, read back in the listed encodings and compared with the whole-document reference decode",
}

func TestGiant(t *testing.T) {
	cases := []GiantCase{
		{Entries: 245, ExtBytes: 70000, Key: "p256a", Alg: "sha256ecdsa", Enc: "der"},
		{Entries: 560000, ExtBytes: 0, Key: "p384", Alg: "sha384ecdsa", Enc: "der", V1: true},
	}
	if ev.Thorough() {
		cases = append(cases,
			GiantCase{Entries: 245, ExtBytes: 70000, Key: "rsa2048a", Alg: "sha1rsa", Enc: "pem-lf"},
			GiantCase{Entries: 600000, ExtBytes: 0, Key: "p256a", Alg: "sha512ecdsa", Enc: "pem-crlf"},
			GiantCase{Entries: 1200000, ExtBytes: 0, Key: "rsa2048b", Alg: "sha256rsa", Enc: "der"},
		)
	}
	ev.Enumerate(t, giantSpec, cases, false)
}

func TestReplayGiant(t *testing.T) { ev.Replay(t, giantSpec) }
