package c18

import (
	"bytes"
	"crypto/x509/pkix"
	"encoding/hex"
	"fmt"
	"math/big"
	"os"
	"reflect"
	"sort"
	"strings"
	"testing"
	"time"

	"verifharness/ev"
	"verifharness/gen"
	"verifharness/world"

	"github.com/gr33nbl00d/caddy-revocation-validator/core"
	"github.com/gr33nbl00d/caddy-revocation-validator/crl/crlreader"
	"github.com/gr33nbl00d/caddy-revocation-validator/crl/crlstore"
	"pgregory.net/rapid"
)

// Op is one store operation of a history.
type Op struct {
	Kind string `json:"kind"` // start insert extmeta signer locations lookup replace reopen
	// start
	Issuer      gen.NameSpec `json:"issuer,omitempty"`       // nil = default issuer
	EmptyIssuer bool         `json:"empty_issuer,omitempty"` // the empty RDNSequence
	This        int64        `json:"this,omitempty"`
	Next        int64        `json:"next,omitempty"`
	// insert / lookup
	Entry gen.Entry `json:"entry,omitempty"`
	// extmeta
	NumberHex string `json:"number,omitempty"` // "" = no cRLNumber
	// signer
	Signer int `json:"signer,omitempty"`
	// locations
	Loc core.CRLLocations `json:"loc,omitempty"`
	// replace: ops applied to a fresh temporary store which then replaces the live one
	Sub []Op `json:"sub,omitempty"`
}

// Case is a history.
type Case struct {
	Ops []Op `json:"ops"`
}

// ---------------------------------------------------------------- model

type modelEntry struct {
	serial *big.Int
	date   time.Time
	exts   []pkix.Extension
}

type model struct {
	entries map[string]modelEntry // key: issuer DER hex + "|" + serial hex (the harness's own key, not the store's)
	issuers map[string]pkix.RDNSequence
	meta    *crlreader.CRLMetaInfo
	ext     *crlreader.ExtendedCRLMetaInfo
	signer  []byte
	loc     *core.CRLLocations
	started bool
}

func newModel() *model {
	return &model{entries: map[string]modelEntry{}, issuers: map[string]pkix.RDNSequence{}}
}

func mkey(issuerDER []byte, serial *big.Int) string {
	return hex.EncodeToString(issuerDER) + "|" + serial.Text(16)
}

var signerPool []*gen.Cert

func signers() []*gen.Cert {
	if signerPool == nil {
		root := gen.Issue(gen.CertSpec{Key: "p256a", Subject: gen.CN("c18 root"), SerialHex: "01", IsCA: true}, nil)
		sub := gen.Issue(gen.CertSpec{Key: "rsa2048a", Subject: gen.NameSpec{{{T: "O", V: "Ünïcode Ltd"}}, {{T: "CN", V: "c18 sub"}}}, SerialHex: "ffeeddccbbaa99887766554433221100ff", IsCA: true}, root)
		signerPool = []*gen.Cert{root, sub}
	}
	return signerPool
}

func toRevoked(e gen.Entry) *pkix.RevokedCertificate {
	var rc pkix.RevokedCertificate
	rc.SerialNumber = gen.SerialFromHex(e.SerialHex)
	rc.RevocationTime = time.Unix(e.Date, 0).UTC()
	for _, x := range e.Exts {
		rc.Extensions = append(rc.Extensions, pkix.Extension{Id: gen.ParseOID(x.OID), Critical: x.Critical, Value: x.Value})
	}
	return &rc
}

// apply runs one op against a store and (when m != nil) the model.
func apply(st crlstore.CRLStore, m *model, op Op, defIssuer gen.NameSpec) error {
	switch op.Kind {
	case "start":
		rdn := op.Issuer.RDN()
		mi := &crlreader.CRLMetaInfo{Issuer: rdn, ThisUpdate: time.Unix(op.This, 0).UTC()}
		if op.Next != 0 {
			mi.NextUpdate = time.Unix(op.Next, 0).UTC()
		}
		if err := st.StartUpdateCrl(mi); err != nil {
			return fmt.Errorf("StartUpdateCrl: %v", err)
		}
		if m != nil {
			m.meta, m.started = mi, true
		}
	case "insert":
		name := issuerOf(op)
		rdn := name.RDN()
		rc := toRevoked(op.Entry)
		if err := st.InsertRevokedCert(&crlreader.CRLEntry{Issuer: &rdn, RevokedCertificate: rc}); err != nil {
			return fmt.Errorf("InsertRevokedCert: %v", err)
		}
		if m != nil {
			k := mkey(name.DER(), rc.SerialNumber)
			m.entries[k] = modelEntry{rc.SerialNumber, rc.RevocationTime, rc.Extensions}
			m.issuers[k] = rdn
		}
	case "extmeta":
		info := &crlreader.ExtendedCRLMetaInfo{}
		if op.NumberHex != "" {
			info.CRLNumber = gen.SerialFromHex(op.NumberHex)
		}
		if err := st.UpdateExtendedMetaInfo(info); err != nil {
			return fmt.Errorf("UpdateExtendedMetaInfo: %v", err)
		}
		if m != nil {
			m.ext = info
		}
	case "signer":
		c := signers()[op.Signer%len(signers())]
		if err := st.UpdateSignatureCertificate(&core.CertificateChainEntry{RawCertificate: c.Cert.Raw, Certificate: c.Cert}); err != nil {
			return fmt.Errorf("UpdateSignatureCertificate: %v", err)
		}
		if m != nil {
			m.signer = c.Cert.Raw
		}
	case "locations":
		loc := op.Loc
		if err := st.UpdateCRLLocations(&loc); err != nil {
			return fmt.Errorf("UpdateCRLLocations: %v", err)
		}
		if m != nil {
			m.loc = &loc
		}
	}
	return nil
}

func normStrs(s []string) []string {
	if len(s) == 0 {
		return nil
	}
	return s
}

func extsEq(a, b []pkix.Extension) bool {
	if len(a) != len(b) {
		return false
	}
	for i := range a {
		if !a[i].Id.Equal(b[i].Id) || a[i].Critical != b[i].Critical || !bytes.Equal(a[i].Value, b[i].Value) {
			return false
		}
	}
	return true
}

// observe checks every getter of st against the model.
func observe(name string, st crlstore.CRLStore, m *model, probes []probe) error {
	for _, p := range probes {
		rdn := p.issuer.RDN()
		got, err := st.GetCertRevocationStatus(&rdn, p.serial)
		if err != nil {
			return fmt.Errorf("[%s] lookup %s/%s: unexpected error %v", name, rdn.String(), p.serial.Text(16), err)
		}
		want, listed := m.entries[mkey(p.issuer.DER(), p.serial)]
		if got.Revoked != listed {
			return fmt.Errorf("[%s] lookup issuer=%q serial=%s: revoked=%v, model says listed=%v", name, rdn.String(), p.serial.Text(16), got.Revoked, listed)
		}
		if listed {
			e := got.CRLRevokedCertEntry
			if e == nil {
				return fmt.Errorf("[%s] lookup %s: revoked without entry", name, p.serial.Text(16))
			}
			if e.SerialNumber.Cmp(want.serial) != 0 || !e.RevocationTime.Equal(want.date) || !extsEq(e.Extensions, want.exts) {
				return fmt.Errorf("[%s] lookup %s: stored entry changed: got {%v %v %v} want {%v %v %v}", name, p.serial.Text(16), e.SerialNumber, e.RevocationTime, e.Extensions, want.serial, want.date, want.exts)
			}
		}
	}
	mi, err := st.GetCRLMetaInfo()
	if m.meta == nil {
		if err == nil {
			return fmt.Errorf("[%s] meta info present (%v) although never written", name, mi)
		}
	} else {
		if err != nil {
			return fmt.Errorf("[%s] GetCRLMetaInfo: %v", name, err)
		}
		if !reflect.DeepEqual(mi.Issuer, m.meta.Issuer) || !mi.ThisUpdate.Equal(m.meta.ThisUpdate) || mi.NextUpdate.IsZero() != m.meta.NextUpdate.IsZero() || (!mi.NextUpdate.IsZero() && !mi.NextUpdate.Equal(m.meta.NextUpdate)) {
			return fmt.Errorf("[%s] meta info read back differs: got %+v want %+v", name, mi, m.meta)
		}
	}
	xi, err := st.GetCRLExtMetaInfo()
	if m.ext == nil {
		if err == nil {
			return fmt.Errorf("[%s] ext meta info present (%v) although never written", name, xi)
		}
	} else {
		if err != nil {
			return fmt.Errorf("[%s] GetCRLExtMetaInfo: %v", name, err)
		}
		if (xi.CRLNumber == nil) != (m.ext.CRLNumber == nil) || (xi.CRLNumber != nil && xi.CRLNumber.Cmp(m.ext.CRLNumber) != 0) {
			return fmt.Errorf("[%s] cRLNumber read back differs: got %v want %v", name, xi.CRLNumber, m.ext.CRLNumber)
		}
	}
	sc, err := st.GetCRLSignatureCert()
	if m.signer == nil {
		if err == nil {
			return fmt.Errorf("[%s] signature cert present although never written", name)
		}
	} else {
		if err != nil {
			return fmt.Errorf("[%s] GetCRLSignatureCert: %v", name, err)
		}
		if !bytes.Equal(sc.RawCertificate, m.signer) || sc.Certificate == nil || !bytes.Equal(sc.Certificate.Raw, m.signer) {
			return fmt.Errorf("[%s] signature cert read back differs", name)
		}
	}
	loc, err := st.GetCRLLocations()
	if m.loc == nil {
		if err == nil {
			return fmt.Errorf("[%s] locations present (%v) although never written", name, loc)
		}
	} else {
		if err != nil {
			return fmt.Errorf("[%s] GetCRLLocations: %v", name, err)
		}
		if !reflect.DeepEqual(normStrs(loc.CRLDistributionPoints), normStrs(m.loc.CRLDistributionPoints)) || loc.CRLUrl != m.loc.CRLUrl || loc.CRLFile != m.loc.CRLFile {
			return fmt.Errorf("[%s] locations read back differ: got %+v want %+v", name, loc, m.loc)
		}
	}
	if m.started && st.IsEmpty() {
		return fmt.Errorf("[%s] IsEmpty() is true after StartUpdateCrl", name)
	}
	return nil
}

type probe struct {
	issuer gen.NameSpec
	serial *big.Int
}

// ---------------------------------------------------------------- run

func issuerOf(op Op) gen.NameSpec {
	if op.EmptyIssuer {
		return gen.NameSpec{}
	}
	if op.Issuer == nil {
		return defaultIssuer
	}
	return op.Issuer
}

var defaultIssuer = gen.NameSpec{{{T: "C", V: "DE"}}, {{T: "O", V: "Acme"}}, {{T: "CN", V: "ca_1"}}}

func collectProbes(ops []Op, into *[]probe, seen map[string]bool) {
	add := func(n gen.NameSpec, s *big.Int) {
		k := mkey(n.DER(), s)
		if !seen[k] {
			seen[k] = true
			*into = append(*into, probe{n, s})
		}
	}
	var issuers []gen.NameSpec
	issuers = append(issuers, defaultIssuer)
	var walk func(ops []Op)
	walk = func(ops []Op) {
		for _, op := range ops {
			if op.Kind == "insert" || op.Kind == "lookup" {
				issuers = append(issuers, issuerOf(op))
			}
			walk(op.Sub)
		}
	}
	walk(ops)
	var walk2 func(ops []Op)
	walk2 = func(ops []Op) {
		for _, op := range ops {
			if op.Kind == "insert" || op.Kind == "lookup" {
				s := gen.SerialFromHex(op.Entry.SerialHex)
				n := issuerOf(op)
				add(n, s)
				// neighbours: +-1, x256, and the same serial under every other issuer seen
				add(n, new(big.Int).Add(s, big.NewInt(1)))
				if s.Sign() > 0 {
					add(n, new(big.Int).Sub(s, big.NewInt(1)))
				}
				add(n, new(big.Int).Lsh(s, 8))
				for _, o := range issuers {
					add(o, s)
				}
				// the pair under another issuer that reads the same once name and serial are written one after the other:
				// "CN=dev ca 1" + "25" and "CN=dev ca 12" + "5"
				nr := n.RDN()
				joined := nr.String() + s.String()
				for _, o := range issuers {
					or := o.RDN()
					os := or.String()
					if os != nr.String() && strings.HasPrefix(joined, os) {
						rest := joined[len(os):]
						if v, ok := new(big.Int).SetString(rest, 10); ok && rest != "" && (rest == "0" || rest[0] != '0') && rest[0] != '-' {
							add(o, v)
						}
					}
				}
			}
			walk2(op.Sub)
		}
	}
	walk2(ops)
}

func runCase(c Case, x *ev.Ctx) error {
	dir := world.NewDir("c18")
	defer os.RemoveAll(dir)
	lg := world.Logger()
	mf, _ := crlstore.CreateStoreFactory(crlstore.Map, dir, lg)
	df, _ := crlstore.CreateStoreFactory(crlstore.LevelDB, dir, lg)
	const id = "0011223344556677889900112233445566778899001122334455667788990011"
	ms, err := mf.CreateStore(id, false)
	if err != nil {
		return fmt.Errorf("create map store: %v", err)
	}
	ds, err := df.CreateStore(id, false)
	if err != nil {
		return fmt.Errorf("create leveldb store: %v", err)
	}
	defer func() { ds.Close() }()
	if !ms.IsEmpty() || !ds.IsEmpty() {
		return fmt.Errorf("fresh store is not empty (map %v, disk %v)", ms.IsEmpty(), ds.IsEmpty())
	}
	m := newModel()
	var probes []probe
	collectProbes(c.Ops, &probes, map[string]bool{})
	if len(probes) > 60 {
		probes = probes[:60]
	}
	var kinds []string
	sawReplaceAfterInsert, sawReopen, inserts := false, false, 0
	for i, op := range c.Ops {
		kinds = append(kinds, op.Kind)
		switch op.Kind {
		case "replace":
			tm, err := mf.CreateStore(id, true)
			if err != nil {
				return fmt.Errorf("create temp map store: %v", err)
			}
			td, err := df.CreateStore(id, true)
			if err != nil {
				return fmt.Errorf("create temp leveldb store: %v", err)
			}
			nm := newModel()
			for _, sop := range op.Sub {
				if err := apply(tm, nm, sop, defaultIssuer); err != nil {
					return fmt.Errorf("step %d (replace/sub map): %v", i, err)
				}
				if err := apply(td, nil, sop, defaultIssuer); err != nil {
					return fmt.Errorf("step %d (replace/sub disk): %v", i, err)
				}
			}
			if err := ms.Update(tm); err != nil {
				return fmt.Errorf("step %d map Update: %v", i, err)
			}
			if err := ds.Update(td); err != nil {
				return fmt.Errorf("step %d leveldb Update: %v", i, err)
			}
			if inserts > 0 {
				sawReplaceAfterInsert = true
			}
			m = nm
		case "reopen":
			ds.Close()
			ds, err = df.CreateStore(id, false)
			if err != nil {
				return fmt.Errorf("step %d reopen: %v", i, err)
			}
			sawReopen = true
		case "lookup":
			// probes are looked up after every step anyway
		default:
			if op.Kind == "insert" {
				inserts++
			}
			if err := apply(ms, m, op, defaultIssuer); err != nil {
				return fmt.Errorf("step %d (map): %v", i, err)
			}
			if err := apply(ds, nil, op, defaultIssuer); err != nil {
				return fmt.Errorf("step %d (disk): %v", i, err)
			}
		}
		if err := observe("memory", ms, m, probes); err != nil {
			return fmt.Errorf("after step %d (%s): %v", i, op.Kind, err)
		}
		if err := observe("disk", ds, m, probes); err != nil {
			return fmt.Errorf("after step %d (%s): %v", i, op.Kind, err)
		}
	}
	// directory hygiene: the only thing left in the base dir is the store itself
	ents, _ := os.ReadDir(dir)
	for _, e := range ents {
		if e.Name() != id {
			return fmt.Errorf("left-over %q in the store base directory after the history", e.Name())
		}
	}
	x.Classf("len-%d", min(len(c.Ops)/5*5, 40))
	if sawReopen {
		x.Class("with-reopen")
	}
	if sawReplaceAfterInsert {
		x.Class("replace-after-insert")
	}
	if inserts > 0 && (sawReplaceAfterInsert || sawReopen) {
		sort.Strings(kinds)
		x.NonTrivial(fmt.Sprintf("%v|%d|%d", strings.Join(kinds, ","), inserts, len(probes)))
	}
	return nil
}

// ---------------------------------------------------------------- generators

func drawIssuer(t *rapid.T, label string) gen.NameSpec {
	switch rapid.IntRange(0, 5).Draw(t, label+"_ik") {
	case 0, 1:
		return nil // default issuer
	case 2: // minimal difference to the default issuer
		return rapid.SampledFrom([]gen.NameSpec{
			{{{T: "C", V: "DE"}}, {{T: "O", V: "Acme"}}, {{T: "CN", V: "ca_1"}}, {{T: "OU", V: "x"}}},
			{{{T: "C", V: "DE"}}, {{T: "O", V: "Acme"}}, {{T: "CN", V: "ca"}}},
			{{{T: "C", V: "DE"}}, {{T: "O", V: "Acme"}}, {{T: "CN", V: "ca_"}}},
			{{{T: "O", V: "Acme"}}, {{T: "C", V: "DE"}}, {{T: "CN", V: "ca_1"}}},
			{{{T: "C", V: "DE"}}, {{T: "O", V: "Acme"}, {T: "CN", V: "ca_1"}}},
			// names whose string form ends in digits, one a prefix of the other
			{{{T: "CN", V: "dev ca 1"}}},
			{{{T: "CN", V: "dev ca 12"}}},
			{{{T: "CN", V: "dev ca 1"}}},
			{{{T: "CN", V: "dev ca 12"}}},
			{{{T: "CN", V: "dev ca 125"}}},
			// UTF8String names that differ inside ONE multi-byte character only (u-umlaut / o-umlaut: c3 bc / c3 b6)
			{{{T: "CN", V: "Z\u00fcrich CA", Kind: "utf8"}}},
			{{{T: "CN", V: "Z\u00f6rich CA", Kind: "utf8"}}},
			{{{T: "CN", V: "Z\u00fcrich CA", Kind: "utf8"}}},
			{{{T: "CN", V: "Z\u00f6rich CA", Kind: "utf8"}}},
			// ... and TeletexString names that differ in one latin-1 byte
			{{{T: "CN", V: "Z\u00fcrich CA", Kind: "t61"}}},
			{{{T: "CN", V: "Z\u00f6rich CA", Kind: "t61"}}},
		}).Draw(t, label+"_near")
	default:
		return gen.DrawName(t, label, 0)
	}
}

func drawLoc(t *rapid.T, label string) core.CRLLocations {
	switch rapid.IntRange(0, 2).Draw(t, label+"_lk") {
	case 0:
		n := rapid.IntRange(0, 3).Draw(t, label+"_n")
		var l core.CRLLocations
		for i := 0; i < n; i++ {
			l.CRLDistributionPoints = append(l.CRLDistributionPoints, rapid.SampledFrom([]string{"http://crl.example/a.crl", "ldap://dir.example/cn=ca?certificateRevocationList", "https://x.example/ü.crl", "http://h/%2f..%2f", ""}).Draw(t, fmt.Sprintf("%s_p%d", label, i)))
		}
		return l
	case 1:
		return core.CRLLocations{CRLUrl: rapid.SampledFrom([]string{"http://crl.example/a.crl", "https://höst/é"}).Draw(t, label+"_u")}
	default:
		return core.CRLLocations{CRLFile: rapid.SampledFrom([]string{"/etc/crl/a.crl", "./rel/ä.pem", "C:\\crl\\a.crl"}).Draw(t, label+"_f")}
	}
}

func drawSimpleOp(t *rapid.T, label string, pool *[]gen.Entry) Op {
	kind := rapid.SampledFrom([]string{"start", "insert", "insert", "insert", "insert", "extmeta", "signer", "locations", "lookup"}).Draw(t, label+"_k")
	op := Op{Kind: kind}
	switch kind {
	case "start":
		op.Issuer = gen.DrawName(t, label+"_mi", 0)
		op.This = int64(rapid.IntRange(gen.MinUTC, gen.MaxUTC).Draw(t, label+"_this"))
		if rapid.Bool().Draw(t, label+"_hn") {
			op.Next = int64(rapid.IntRange(1, gen.MaxUTC).Draw(t, label+"_next"))
		}
	case "insert", "lookup":
		op.Issuer = drawIssuer(t, label)
		if rapid.IntRange(0, 15).Draw(t, label+"_empty") == 0 {
			op.Issuer, op.EmptyIssuer = nil, true
		}
		if len(*pool) > 0 && rapid.IntRange(0, 3).Draw(t, label+"_re") == 0 {
			// re-use an earlier serial (same or other issuer; overwrite or cross-issuer)
			op.Entry = (*pool)[rapid.IntRange(0, len(*pool)-1).Draw(t, label+"_pi")]
			op.Entry.Date = int64(rapid.IntRange(0, gen.MaxUTC).Draw(t, label+"_rd"))
		} else {
			op.Entry = gen.DrawEntry(t, label+"_e", true)
		}
		*pool = append(*pool, op.Entry)
	case "extmeta":
		if rapid.IntRange(0, 3).Draw(t, label+"_hasnum") != 0 {
			op.NumberHex = gen.DrawSerialHex(t, label+"_num")
		}
	case "signer":
		op.Signer = rapid.IntRange(0, 1).Draw(t, label+"_sg")
	case "locations":
		op.Loc = drawLoc(t, label)
	}
	return op
}

func genCase(t *rapid.T) Case {
	var c Case
	var pool []gen.Entry
	n := rapid.IntRange(1, 40).Draw(t, "n")
	for i := 0; i < n; i++ {
		switch rapid.IntRange(0, 9).Draw(t, fmt.Sprintf("k%d", i)) {
		case 0:
			op := Op{Kind: "replace"}
			sn := rapid.IntRange(0, 8).Draw(t, fmt.Sprintf("sn%d", i))
			for j := 0; j < sn; j++ {
				so := drawSimpleOp(t, fmt.Sprintf("s%d_%d", i, j), &pool)
				if so.Kind != "lookup" {
					op.Sub = append(op.Sub, so)
				}
			}
			c.Ops = append(c.Ops, op)
		case 1:
			c.Ops = append(c.Ops, Op{Kind: "reopen"})
		default:
			c.Ops = append(c.Ops, drawSimpleOp(t, fmt.Sprintf("o%d", i), &pool))
		}
	}
	return c
}

var spec = ev.Spec[Case]{
	ID:   "C18",
	Gen:  genCase,
	Run:  runCase,
	Rule: "rapid draws a history of up to 40 store operations {start(meta), insert(issuer, serial 1..20 bytes, UTC/Generalized date, 0..3 extensions), ext-meta(cRLNumber|none), signer(cert), locations(CDP list|url|file), replace-with(a second store built by its own ops), close+reopen(disk)}; issuers include names differing minimally from each other (extra RDN, trailing '_', RDN order, multi-valued RDN, empty name, names ending in digits one of which is a prefix of the other, UTF8String names differing inside one multi-byte character, TeletexString names differing in one latin-1 byte) and earlier serials are re-used under other issuers. The history is applied in lock-step to a MapStore, a LevelDbStore and a reference model; after EVERY step every getter of both stores is compared with the model for all inserted pairs and their neighbours (+-1, x256, same serial under every other issuer, and the pair under another issuer that reads the same when name and serial are concatenated). Non-trivial: >= 1 insert and a replace-after-insert or a reopen; distinct by (multiset of op kinds, inserts, probes).",
	Assumptions: []string{
		"FNV-64 key collisions are outside the claim (none is generated by chance)",
		"meta times are in the UTCTime range (the profile of C06), as the reader can only produce those",
	},
}

func TestMain(m *testing.M) {
	code := m.Run()
	world.Cleanup()
	os.Exit(code)
}

func TestProp(t *testing.T)   { ev.Check(t, spec) }
func TestReplay(t *testing.T) { ev.Replay(t, spec) }

// ---------------------------------------------------------------- bounded exhaustive enumeration

var alphabet = []Op{
	{Kind: "start", Issuer: gen.CN("enum ca"), This: 1700000000, Next: 1800000000},
	{Kind: "insert", Entry: gen.Entry{SerialHex: "01", Date: 1600000000}},
	{Kind: "insert", Issuer: gen.NameSpec{{{T: "C", V: "DE"}}, {{T: "O", V: "Acme"}}, {{T: "CN", V: "ca_"}}}, Entry: gen.Entry{SerialHex: "01", Date: 1600000001, Exts: []gen.Ext{gen.ReasonExt(1)}}},
	{Kind: "insert", Entry: gen.Entry{SerialHex: "010000000000000001", Date: 4102444800, GenTime: true}},
	{Kind: "extmeta", NumberHex: "ff00"},
	{Kind: "signer", Signer: 1},
	{Kind: "locations", Loc: core.CRLLocations{CRLDistributionPoints: []string{"http://a/b.crl"}}},
	{Kind: "replace", Sub: []Op{{Kind: "start", Issuer: gen.CN("enum ca2"), This: 1710000000}, {Kind: "insert", Entry: gen.Entry{SerialHex: "02", Date: 1600000002}}, {Kind: "extmeta"}}},
	{Kind: "reopen"},
}

func TestEnum(t *testing.T) {
	maxLen := 3
	if ev.Thorough() {
		maxLen = 4
	}
	var cases []Case
	var rec func(prefix []Op, l int)
	rec = func(prefix []Op, l int) {
		if l > 0 {
			cases = append(cases, Case{Ops: append([]Op(nil), prefix...)})
		}
		if l == maxLen {
			return
		}
		for _, a := range alphabet {
			rec(append(prefix, a), l+1)
		}
	}
	rec(nil, 0)
	s := spec
	s.Rule = fmt.Sprintf("bounded exhaustive enumeration: every sequence of length 1..%d over a 9-symbol alphabet {start, insert A/1, insert A'/1 (issuer differing by one character), insert A/2^64+1 (GeneralizedTime), ext-meta, signer, locations, replace-with{start,insert,ext-meta(none)}, reopen}, same lock-step oracle", maxLen)
	ev.Enumerate(t, s, cases, true)
}
