package c17

import (
	"crypto/x509"
	"fmt"
	"net/http"
	"os"
	"path/filepath"
	"runtime"
	"runtime/debug"
	"sync/atomic"
	"testing"
	"time"

	"verifharness/ev"
	"verifharness/gen"
	"verifharness/world"

	"pgregory.net/rapid"

	"github.com/gr33nbl00d/caddy-revocation-validator/core"
	"github.com/gr33nbl00d/caddy-revocation-validator/crl/crlreader"
	"github.com/gr33nbl00d/caddy-revocation-validator/crl/crlstore"
	"go.uber.org/zap"
)

// Case compares peak live heap for N1 and N2 entries.
type Case struct {
	Path string `json:"path"` // reader | whole-disk | whole-memory
	N1   int    `json:"n1"`
	N2   int    `json:"n2"`
	PEM  bool   `json:"pem"`
	Via  string `json:"via"` // file | http (whole path only)
	Exts bool   `json:"exts"`
	// CertIssuer: every entry carries a certificateIssuer entry extension (as in an indirect CRL)
	CertIssuer bool `json:"cert_issuer,omitempty"`
	// Refresh: after the load the list is refreshed once more (same content) while sampling continues
	Refresh bool `json:"refresh,omitempty"`
	// Distinct: every entry carries an invalidityDate entry extension with its own value (no two entries alike)
	Distinct bool `json:"distinct_exts,omitempty"`
	// DebugLog: the code under test runs with a logger on which DEBUG is enabled (output discarded)
	DebugLog bool `json:"debug_log,omitempty"`
	// Late: the source is not there at the first attempt (file: appears 300 ms later under the configured name;
	// http: the connection of the first request is reset before any response), so the list is taken in by the loader's retry path
	Late bool `json:"late,omitempty"`
	// FailAfter (path store-fault): the LevelDB database starts rejecting writes after this many entries
	FailAfter int `json:"fail_after,omitempty"`
}

func liveHeap() uint64 {
	runtime.GC()
	var m runtime.MemStats
	runtime.ReadMemStats(&m)
	return m.HeapAlloc
}

type peak struct {
	base uint64
	max  atomic.Uint64
}

func (p *peak) sample() {
	h := liveHeap()
	for {
		cur := p.max.Load()
		if h <= cur || p.max.CompareAndSwap(cur, h) {
			return
		}
	}
}

func (p *peak) above() int64 { return int64(p.max.Load()) - int64(p.base) }

type countingConsumer struct {
	n int
	p *peak
}

func (c *countingConsumer) StartUpdateCrl(*crlreader.CRLMetaInfo) error { return nil }
func (c *countingConsumer) InsertRevokedCertificate(*crlreader.CRLEntry) error {
	c.n++
	if c.n%5000 == 0 {
		c.p.sample()
	}
	return nil
}
func (c *countingConsumer) UpdateExtendedMetaInfo(*crlreader.ExtendedCRLMetaInfo) error  { return nil }
func (c *countingConsumer) UpdateSignatureCertificate(*core.CertificateChainEntry) error { return nil }

// faultingConsumer is the real persisting processor; it makes the LevelDB handle read-only after a number of entries.
type faultingConsumer struct {
	crlstore.CRLPersisterProcessor
	p     *peak
	n     int
	after int
	db    *crlstore.LevelDbStore
}

func (c *faultingConsumer) InsertRevokedCertificate(e *crlreader.CRLEntry) error {
	c.n++
	if c.n == c.after {
		if err := c.db.Db.SetReadOnly(); err != nil {
			panic(err)
		}
	}
	if c.n%5000 == 0 {
		c.p.sample()
	}
	return c.CRLPersisterProcessor.InsertRevokedCertificate(e)
}

var ca = gen.Issue(gen.CertSpec{Key: "p256a", Subject: gen.CN("c17 ca"), SerialHex: "1001", IsCA: true}, nil)

var certIssuerExt = gen.Ext{OID: "2.5.29.29", Critical: true, Value: gen.TLV(0x30, gen.TLV(0xa4, gen.CN("c17 indirect issuer with a reasonably long distinguished name").DER()))}

func writeList(path string, n int, pem, exts, certIssuer, distinct bool, salt int) {
	spec := gen.CRLSpec{Version: 1, SigAlg: "sha256ecdsa", IssuerDER: ca.Cert.RawSubject, ThisUpdate: 1700000000, NextUpdate: 1900000000, HasExts: true,
		Exts: []gen.Ext{gen.CRLNumberExt([]byte{1})}, N: n}
	spec.EntryFn = func(i int) gen.Entry {
		e := gen.Entry{SerialHex: serialOf(i, salt), Date: 1690000000 + int64(i%100000)}
		if exts {
			e.Exts = []gen.Ext{gen.ReasonExt(byte(1 + i%5))}
		}
		if certIssuer {
			e.Exts = append(e.Exts, certIssuerExt)
		}
		if distinct {
			e.Exts = append(e.Exts, gen.InvalidityExt(time.Unix(1200000000+int64(salt)*40000000+int64(i)*13, 0).UTC()))
		}
		return e
	}
	f, err := os.Create(path)
	if err != nil {
		panic(err)
	}
	defer f.Close()
	if pem {
		err = spec.WritePEM(f, ca.Key, false)
	} else {
		err = spec.WriteDER(f, ca.Key)
	}
	if err != nil {
		panic(err)
	}
}

// serialOf: the salt makes the content of every measurement different from every earlier one of the process, so that
// nothing a previous measurement left behind (a content-keyed memo, say) can make a later one look cheaper
func serialOf(i, salt int) string {
	return fmt.Sprintf("9e%02x%028x%08x", salt&0xff, uint64(i)*0x9e3779b97f4a7c15, i)
}

// measure returns the peak live heap above the baseline while processing a list of n entries.
// retainedAbove: live heap above the baseline once everything the measurement opened is closed again.
func (p *peak) retainedAbove() int64 {
	debug.FreeOSMemory()
	return int64(liveHeap()) - int64(p.base)
}

func measure(c Case, n int, dir string, salt int) (int64, int64, error) {
	listPath := filepath.Join(dir, fmt.Sprintf("list-%d", n))
	writeList(listPath, n, c.PEM, c.Exts, c.CertIssuer, c.Distinct, salt)
	defer os.Remove(listPath)
	debug.FreeOSMemory()
	p := &peak{base: liveHeap()}
	p.max.Store(p.base)
	if c.Path == "reader" {
		cons := &countingConsumer{p: p}
		if _, err := (crlreader.StreamingCRLFileReader{}).ReadCRL(cons, listPath); err != nil {
			return 0, 0, fmt.Errorf("reader rejected a well-formed list of %d entries: %v", n, err)
		}
		if cons.n != n {
			return 0, 0, fmt.Errorf("consumer got %d of %d entries", cons.n, n)
		}
		p.sample()
		return p.above(), p.retainedAbove(), nil
	}
	if c.Path == "store-fault" {
		// reader -> persisting processor -> LevelDB store whose database turns read-only after FailAfter entries (disk
		// full, I/O error): whether the import aborts or carries on, what is kept in memory must not grow with the
		// number of entries that still follow
		f, err := crlstore.CreateStoreFactory(crlstore.LevelDB, dir, zap.NewNop())
		if err != nil {
			panic(err)
		}
		st, err := f.CreateStore(fmt.Sprintf("fault-%d", n), true)
		if err != nil {
			panic(err)
		}
		ldb := st.(*crlstore.LevelDbStore)
		fc := &faultingConsumer{CRLPersisterProcessor: crlstore.CRLPersisterProcessor{CRLStore: st}, p: p, after: c.FailAfter, db: ldb}
		_, rerr := (crlreader.StreamingCRLFileReader{}).ReadCRL(fc, listPath)
		p.sample()
		st.Close()
		st.Delete()
		if fc.n < c.FailAfter {
			return 0, 0, fmt.Errorf("harness: the import ended after %d entries, before the fault at %d (%v)", fc.n, c.FailAfter, rerr)
		}
		return p.above(), p.retainedAbove(), nil
	}
	// whole path: (download ->) parse -> store -> lookups
	o := world.NewOrigin()
	defer o.Close()
	o.Set("/big.crl", func(w http.ResponseWriter, r *http.Request, _ []byte, n int) {
		if c.Late && n == 1 {
			// the connection is reset before a response: a transport error, which the loader retries
			if hj, ok := w.(http.Hijacker); ok {
				conn, _, _ := hj.Hijack()
				conn.Close()
			}
			return
		}
		http.ServeFile(w, r, listPath)
	})
	wd := filepath.Join(dir, fmt.Sprintf("work-%d", n))
	os.MkdirAll(wd, 0o755)
	defer os.RemoveAll(wd)
	opts := world.CRLOpts{WorkDir: wd, Disk: c.Path == "whole-disk", Trusted: []*x509.Certificate{ca.Cert}, NoSettle: true, Interval: time.Hour, Watchdog: 20 * time.Minute, DebugLog: c.DebugLog}
	if c.Via == "http" {
		opts.URLs = []string{o.URL("/big.crl")}
	} else {
		opts.Files = []string{listPath}
		if c.Late {
			pending := listPath + ".pending"
			os.Rename(listPath, pending)
			go func() {
				time.Sleep(300 * time.Millisecond)
				os.Rename(pending, listPath)
			}()
		}
	}
	stop := make(chan struct{})
	done := make(chan struct{})
	go func() {
		defer close(done)
		for {
			select {
			case <-stop:
				return
			case <-time.After(40 * time.Millisecond):
				p.sample()
			}
		}
	}()
	ch, err := world.NewChecker(opts)
	if err != nil {
		close(stop)
		<-done
		return 0, 0, fmt.Errorf("provisioning with a %d-entry list failed: %v", n, err)
	}
	if c.Refresh {
		world.Call("refresh", 20*time.Minute, func() int { ch.VerifForceUpdate(); return 0 })
	}
	pki := &world.SimplePKI{Root: ca}
	for _, i := range []int{0, n / 2, n - 1} {
		if v := world.Ask(ch, pki.ChainFor(pki.Leaf(serialOf(i, salt), nil, nil))); v.Kind != "revoked" {
			close(stop)
			<-done
			ch.Cleanup()
			return 0, 0, fmt.Errorf("entry %d of %d is not reported revoked after the load: %v", i, n, v)
		}
	}
	p.sample()
	close(stop)
	<-done
	ch.Cleanup()
	return p.above(), p.retainedAbove(), nil
}

func runCase(c Case, x *ev.Ctx) error {
	dir := world.NewDir("c17")
	defer os.RemoveAll(dir)
	limitGrowth, ceiling := int64(4<<20), int64(32<<20)
	if c.Path == "whole-disk" {
		limitGrowth, ceiling = 16<<20, 160<<20
	}
	var p1, p2, growth, kept int64
	const keptLimit = 8 << 20
	// A measurement above a limit is repeated (up to three in total) and the best one counts: memory that grows
	// with the number of entries shows in every measurement, a transient (LevelDB compaction starved on a busy
	// machine, so that more tables and write buffers than usual are alive for a while) does not.
	for attempt := 1; attempt <= 3; attempt++ {
		a1, _, err := measure(c, c.N1, dir, 2*attempt)
		if err != nil {
			return err
		}
		a2, k2, err := measure(c, c.N2, dir, 2*attempt+1)
		if err != nil {
			return err
		}
		if attempt == 1 || a2-a1 < growth {
			p1, p2, growth = a1, a2, a2-a1
		}
		if attempt == 1 || k2 < kept {
			kept = k2
		}
		if c.Path == "whole-memory" || (growth <= limitGrowth && p2 <= ceiling && kept <= keptLimit) {
			break
		}
		x.Classf("%s/above-limit-remeasured", c.Path)
	}
	x.Classf("%s/retained-after-N2=%dKiB", c.Path, kept>>10)
	x.Classf("%s/peak-N1=%dKiB", c.Path, p1>>10)
	x.Classf("%s/peak-N2=%dKiB", c.Path, p2>>10)
	switch c.Path {
	case "whole-memory":
		// the memory back-end is documented as O(N): measured and reported, not asserted
		x.Classf("memory-backend-bytes-per-entry=%d", growth/int64(c.N2-c.N1))
		x.NonTrivial(fmt.Sprintf("%+v", c))
		return nil
	}
	if growth > limitGrowth {
		return fmt.Errorf("%s path (pem=%v via=%s exts=%v): peak live heap grows with the number of entries: %d KiB above baseline for N=%d, %d KiB for N=%d (growth %d KiB > %d KiB, i.e. %.1f bytes per additional entry)",
			c.Path, c.PEM, c.Via, c.Exts, p1>>10, c.N1, p2>>10, c.N2, growth>>10, limitGrowth>>10, float64(growth)/float64(c.N2-c.N1))
	}
	if kept > keptLimit {
		return fmt.Errorf("%s path (pem=%v via=%s exts=%v distinct=%v): %d KiB of live heap are still held after a list of %d entries was processed and everything was closed again (limit %d KiB): memory held per entry is never released",
			c.Path, c.PEM, c.Via, c.Exts, c.Distinct, kept>>10, c.N2, keptLimit>>10)
	}
	if p2 > ceiling {
		return fmt.Errorf("%s path: peak live heap %d KiB above baseline exceeds the ceiling of %d KiB for N=%d", c.Path, p2>>10, ceiling>>10, c.N2)
	}
	x.NonTrivial(fmt.Sprintf("%+v", c))
	return nil
}

var spec = ev.Spec[Case]{
	ID:          "C17",
	Run:         runCase,
	Rule:        "metamorphic in N: well-formed lists of N1 and N2 >> N1 entries (20-byte serials, reasonCode entry extensions) are written by the streaming encoder to a file (never held in memory by the harness) and processed (a) by the streaming reader with a counting consumer and (b) through the whole path provision -> (HTTP download | file copy) -> parse -> LevelDB -> (one case: + a refresh of the same list) -> lookups of first/middle/last entry; some lists carry a certificateIssuer entry extension on every entry, some an invalidityDate extension with a different value on every entry; some pairs run with DEBUG logging enabled (output discarded) and / or take the list in through the loader's retry path (file not there at the first attempt, first HTTP connection reset); one pair feeds the reader into a LevelDB store whose database turns read-only after 1000 entries (path store-fault, judged like the reader path); live heap (HeapAlloc right after a forced GC) is sampled every 5000 entries from inside the consumer and every 40 ms by a sampler during the whole path. Oracle: peak(N2) - peak(N1) <= 4 MiB (reader) / 16 MiB (whole path on disk; N1 is chosen large enough (>= 3*10^5 entries, 18 MB) that LevelDB's write buffers and caches are already saturated) and absolute ceilings 32 / 160 MiB; after the N2 measurement and after everything was closed (Cleanup / store closed and deleted) at most 8 MiB of live heap above the baseline remain; a pair above a limit is measured up to three times and the smallest growth counts (growth with N is reproducible, a transient of a busy machine is not; every measurement uses serials and extension values no earlier measurement of the process has used); the memory back-end is measured and reported only (documented O(N)). Every size pair is non-trivial.",
	Assumptions: []string{"HeapAlloc after runtime.GC() approximates live heap; the harness keeps no per-entry data"},
}

func cases() []Case {
	quick := []Case{
		{Path: "reader", N1: 20000, N2: 200000, Exts: true},
		{Path: "reader", N1: 20000, N2: 200000, PEM: true, Exts: true},
		{Path: "whole-disk", N1: 300000, N2: 900000, Via: "http", PEM: true, Exts: true},
		{Path: "whole-disk", N1: 300000, N2: 900000, Via: "file", Exts: false, Refresh: true},
		{Path: "whole-disk", N1: 100000, N2: 400000, Via: "http", Exts: true, CertIssuer: true},
		{Path: "reader", N1: 20000, N2: 200000, Exts: true, CertIssuer: true},
		{Path: "whole-memory", N1: 20000, N2: 100000, Via: "http", Exts: true},
		{Path: "whole-disk", N1: 100000, N2: 400000, Via: "file", Exts: true, Distinct: true},
		{Path: "store-fault", N1: 20000, N2: 200000, Exts: true, FailAfter: 1000},
		{Path: "whole-disk", N1: 100000, N2: 400000, Via: "http", Exts: true, DebugLog: true},
		{Path: "whole-disk", N1: 200000, N2: 900000, Via: "file", Exts: true, Late: true},
		{Path: "whole-disk", N1: 100000, N2: 400000, Via: "http", PEM: true, Late: true, DebugLog: true},
	}
	if !ev.Thorough() {
		return quick
	}
	return append(quick,
		Case{Path: "reader", N1: 200000, N2: 2000000, Exts: true},
		Case{Path: "reader", N1: 200000, N2: 2000000, PEM: true},
		Case{Path: "whole-disk", N1: 300000, N2: 1500000, Via: "http", Exts: true},
		Case{Path: "whole-disk", N1: 300000, N2: 1500000, Via: "http", PEM: true, Exts: true},
		Case{Path: "whole-disk", N1: 300000, N2: 1500000, Via: "file", PEM: true},
		Case{Path: "whole-disk", N1: 400000, N2: 2500000, Via: "file", Exts: true},
		Case{Path: "whole-memory", N1: 100000, N2: 500000, Via: "file", Exts: true},
	)
}

func TestMain(m *testing.M) {
	code := m.Run()
	world.Cleanup()
	os.Exit(code)
}

// genCase draws a size pair and the shape of the list instead of taking them from the fixed table: the sizes of
// the fixed pairs are round numbers, so a buffer that grows only past some threshold between them, or only for a
// combination of options the table does not contain, would go unseen. The limits are the same as for the fixed pairs.
func genCase(t *rapid.T) Case {
	c := Case{Path: rapid.SampledFrom([]string{"reader", "reader", "store-fault", "whole-disk"}).Draw(t, "path")}
	c.PEM = rapid.Bool().Draw(t, "pem")
	c.Exts = rapid.Bool().Draw(t, "exts")
	switch c.Path {
	case "reader", "store-fault":
		c.N1 = rapid.IntRange(8000, 60000).Draw(t, "n1")
		c.N2 = c.N1*rapid.IntRange(5, 12).Draw(t, "factor") + rapid.IntRange(0, 4999).Draw(t, "odd")
		c.CertIssuer = rapid.Bool().Draw(t, "certIssuer")
		if !c.CertIssuer {
			c.Distinct = rapid.Bool().Draw(t, "distinct")
		}
		if c.Path == "store-fault" {
			c.FailAfter = rapid.IntRange(1, 6000).Draw(t, "failAfter")
			c.CertIssuer, c.Distinct = false, false
		}
	default:
		// the quick tier keeps the drawn disk-path pairs below 4*10^5 entries so that the phase stays within a minute
		hiN1, hiF := 200000, 4
		if !ev.Thorough() {
			hiN1, hiF = 120000, 3
		}
		c.N1 = rapid.IntRange(100000, hiN1).Draw(t, "n1")
		c.N2 = c.N1*rapid.IntRange(3, hiF).Draw(t, "factor") + rapid.IntRange(0, 4999).Draw(t, "odd")
		c.Via = rapid.SampledFrom([]string{"file", "http"}).Draw(t, "via")
		c.Late = rapid.Bool().Draw(t, "late")
		c.DebugLog = rapid.Bool().Draw(t, "debugLog")
		c.Refresh = rapid.Bool().Draw(t, "refresh")
		if rapid.Bool().Draw(t, "entryExt") {
			c.Exts = true
			c.Distinct = rapid.Bool().Draw(t, "distinct")
			c.CertIssuer = !c.Distinct
		}
	}
	return c
}

func TestSizes(t *testing.T)  { ev.Enumerate(t, spec, cases(), false) }
func TestDrawn(t *testing.T)  { s := spec; s.Gen = genCase; ev.Check(t, s) }
func TestReplay(t *testing.T) { ev.Replay(t, spec) }
