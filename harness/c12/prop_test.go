package c12

import (
	"encoding/json"
	"fmt"
	"net/http"
	"os"
	"os/exec"
	"path/filepath"
	"regexp"
	"sort"
	"strings"
	"sync"
	"syscall"
	"testing"
	"time"

	"verifharness/ev"
	"verifharness/gen"
	"verifharness/world"

	"github.com/gr33nbl00d/caddy-revocation-validator/core/verifhook"
)

// Scenario is what the child process does before it is killed.
type Scenario struct {
	Kind     string `json:"kind"`     // firstload | refresh
	Rejected bool   `json:"rejected"` // the list being taken in has a wrong signature
	N        int    `json:"n"`        // entries common to old and new list
	PEM      bool   `json:"pem"`
}

// Case is one crash point of one scenario.
type Case struct {
	Scenario Scenario `json:"scenario"`
	KillAt   int      `json:"kill_at"` // index into the recorded site sequence (-1: no kill)
	Site     string   `json:"site"`    // name of the site at that index (informational)
	// timed kill (thorough): SIGKILL from the parent after DelayUS microseconds while the origin trickles the body
	Timed   bool `json:"timed,omitempty"`
	DelayUS int  `json:"delay_us,omitempty"`
}

type childCfg struct {
	Scenario     Scenario `json:"scenario"`
	WorkDir      string   `json:"work_dir"`
	URL          string   `json:"url"`
	KillAt       int      `json:"kill_at"`
	Record       string   `json:"record"` // file to append site names to ("" = none)
	Name         string   `json:"name"`
	OmitDefaults bool     `json:"omit_defaults,omitempty"`
}

const (
	oldOnly, newOnly, common0, unlistedS = "0a", "0b", "0c", "0d"
)

func pkiFor(name string) (*world.SimplePKI, *world.SimplePKI) {
	return world.NewSimplePKI(name, "p256a", "p256b"), world.NewSimplePKI(name, "p256c", "p256d")
}

func commonSerials(n int) []string {
	s := []string{common0}
	for i := 1; i < n; i++ {
		s = append(s, fmt.Sprintf("c0%04x", i))
	}
	return s
}

// TestChild is the body of the child process.
func TestChild(t *testing.T) {
	raw := os.Getenv("VERIF_C12_CHILD")
	if raw == "" {
		t.Skip("not a child")
	}
	var cfg childCfg
	if err := json.Unmarshal([]byte(raw), &cfg); err != nil {
		t.Fatal(err)
	}
	pki, _ := pkiFor(cfg.Name)
	var mu sync.Mutex
	n := 0
	armed := cfg.Scenario.Kind == "firstload"
	site := func(name string) {
		mu.Lock()
		defer mu.Unlock()
		if !armed {
			return
		}
		if cfg.Record != "" {
			f, _ := os.OpenFile(cfg.Record, os.O_APPEND|os.O_CREATE|os.O_WRONLY, 0o644)
			fmt.Fprintln(f, name)
			f.Close()
		}
		if n == cfg.KillAt {
			syscall.Kill(os.Getpid(), syscall.SIGKILL)
			time.Sleep(time.Hour)
		}
		n++
	}
	verifhook.Set(site)
	ch, err := world.NewChecker(world.CRLOpts{WorkDir: cfg.WorkDir, Disk: true, Sig: "verify", NoSettle: true, Interval: time.Hour, OmitDefaults: cfg.OmitDefaults})
	if err != nil {
		fmt.Println("CHILD-PROVISION-ERROR", err)
		os.Exit(3)
	}
	repo := ch.VerifRepository()
	plan := &world.FaultPlan{OnWrite: func(method string, k int) { site(fmt.Sprintf("write:%s", method)) }}
	repo.Factory = world.FaultFactory{Inner: repo.Factory, Plan: plan}
	leaf := pki.Leaf(unlistedS, []string{cfg.URL}, nil)
	v := world.Ask(ch, pki.ChainFor(leaf)) // first request: first load
	if cfg.Scenario.Kind == "refresh" {
		if v.Kind != "ok" {
			fmt.Println("CHILD-FIRST-LOAD-FAILED", v)
			os.Exit(4)
		}
		mu.Lock()
		armed = true
		mu.Unlock()
		ch.VerifForceUpdate() // second request: the refresh
	}
	ch.Cleanup()
	fmt.Println("CHILD-DONE")
}

type env struct {
	origin *world.Origin
	name   string
	wd     string
	pki    *world.SimplePKI
	sib    *world.SimplePKI
	omit   bool // options at their default are rendered as omitted (storage_type, fetch mode, signature mode)
}

var (
	seqMu sync.Mutex
	seq   int
)

func setupOrigin(sc Scenario, trickle time.Duration) *env {
	seqMu.Lock()
	seq++
	id := seq
	seqMu.Unlock()
	// the work_dir path contains glob / regexp meta characters: the startup sweep must not interpret the path
	base := world.NewDir("c12")
	wd := filepath.Join(base, []string{"crl[prod]", "work", "w*d?", "crl_x_tmp", "link"}[id%5])
	if id%5 == 4 {
		// work_dir is a symbolic link to the directory that holds the data
		os.MkdirAll(filepath.Join(base, "real"), 0o755)
		os.Symlink(filepath.Join(base, "real"), wd)
	} else {
		os.MkdirAll(wd, 0o755)
	}
	e := &env{origin: world.NewOrigin(), name: fmt.Sprintf("c12-%d-%d", os.Getpid(), id), wd: wd, omit: id%3 == 1}
	e.pki, e.sib = pkiFor(e.name)
	com := commonSerials(sc.N)
	oldL := e.pki.CRL(1, append([]string{oldOnly}, com...)...)
	signer := e.pki
	if sc.Rejected {
		signer = e.sib
	}
	newL := signer.CRL(2, append([]string{newOnly}, com...)...)
	enc := func(b []byte) []byte {
		if sc.PEM {
			return gen.PEMEncode(b, false)
		}
		return b
	}
	e.origin.Set("/list.crl", func(w http.ResponseWriter, r *http.Request, _ []byte, n int) {
		body := enc(newL)
		if sc.Kind == "refresh" && n == 1 {
			body = enc(oldL)
		}
		if trickle > 0 && (sc.Kind == "firstload" || n >= 2) {
			fl, _ := w.(http.Flusher)
			for i := 0; i < len(body); i += 512 {
				w.Write(body[i:min(i+512, len(body))])
				if fl != nil {
					fl.Flush()
				}
				time.Sleep(trickle)
			}
			return
		}
		w.Write(body)
	})
	return e
}

func (e *env) runChild(sc Scenario, killAt int, record string, timed time.Duration) (string, error) {
	cfg := childCfg{Scenario: sc, WorkDir: e.wd, URL: e.origin.URL("/list.crl"), KillAt: killAt, Record: record, Name: e.name, OmitDefaults: e.omit}
	b, _ := json.Marshal(cfg)
	cmd := exec.Command(os.Args[0], "-test.run", "^TestChild$", "-test.timeout", "120s")
	cmd.Env = append(os.Environ(), "VERIF_C12_CHILD="+string(b))
	var out strings.Builder
	cmd.Stdout, cmd.Stderr = &out, &out
	if err := cmd.Start(); err != nil {
		return "", err
	}
	done := make(chan error, 1)
	go func() { done <- cmd.Wait() }()
	var timer <-chan time.Time
	if timed > 0 {
		timer = time.After(timed)
	}
	select {
	case <-done:
	case <-timer:
		cmd.Process.Kill()
		<-done
	case <-time.After(90 * time.Second):
		cmd.Process.Kill()
		<-done
		return out.String(), fmt.Errorf("child did not finish within 90 s")
	}
	return out.String(), nil
}

var hex64 = regexp.MustCompile(`^[0-9a-f]{64}$`)

// listDir lists a work_dir; store directories (named by the hash of the location, which contains the
// origin's port) are normalised to a class name so listings of different runs are comparable.
func listDir(d string) []string {
	ents, _ := os.ReadDir(d)
	var n []string
	for _, e := range ents {
		name := e.Name()
		if hex64.MatchString(name) && e.IsDir() {
			name = "<store-dir>"
		}
		n = append(n, name)
	}
	sort.Strings(n)
	return n
}

// restartAndJudge restarts a checker on the crash image (origin broken, strict) and applies the oracle.
func (e *env) restartAndJudge(c Case, cleanNames map[string]bool) (string, error) {
	e.origin.Status("/list.crl", 503, "origin down")
	ch, err := world.NewChecker(world.CRLOpts{WorkDir: e.wd, Disk: true, Sig: "verify", Strict: true, OmitDefaults: e.omit})
	if err != nil {
		return "provision-error", nil // a clean refusal to start is fail closed
	}
	defer ch.Cleanup()
	url := []string{e.origin.URL("/list.crl")}
	ask := func(serial string) world.Verdict {
		return world.Ask(ch, e.pki.ChainFor(e.pki.Leaf(serial, url, nil)))
	}
	u := ask(unlistedS)
	// startup sweep (checked after the first handshake so the store directory of the location exists in both runs):
	// nothing may be left that a crash-free run does not leave either
	for _, n := range listDir(e.wd) {
		if strings.HasPrefix(n, "crl_") && strings.HasSuffix(n, "_tmp") {
			return "", fmt.Errorf("temporary artefact %q still in work_dir after restart", n)
		}
		if cleanNames != nil && !cleanNames[n] {
			return "", fmt.Errorf("leftover %q in work_dir after restart on the crash image (a crash-free run leaves only %v)", n, keys(cleanNames))
		}
	}
	switch u.Kind {
	case "error":
		return "not-loaded", nil // always acceptable
	case "ok":
	default:
		return "", fmt.Errorf("unlisted probe after restart: %v", u)
	}
	o, n, cm := ask(oldOnly), ask(newOnly), ask(common0)
	last := cm
	if c.Scenario.N > 1 {
		last = ask(fmt.Sprintf("c0%04x", c.Scenario.N-1))
	}
	state := fmt.Sprintf("old-only=%s new-only=%s common=%s last-common=%s", o.Kind, n.Kind, cm.Kind, last.Kind)
	isOld := o.Kind == "revoked" && n.Kind == "ok" && cm.Kind == "revoked" && last.Kind == "revoked"
	isNew := o.Kind == "ok" && n.Kind == "revoked" && cm.Kind == "revoked" && last.Kind == "revoked"
	refreshable := func() error {
		// a location that counts as loaded holds a COMPLETE accepted list, including what a refresh needs: with the origin
		// healthy again a newer list must come into force
		newest := e.pki.CRL(9, "0e", common0)
		e.origin.Serve("/list.crl", newest)
		ch.VerifForceUpdate()
		if v := ask("0e"); v.Kind != "revoked" {
			return fmt.Errorf("location counts as loaded after the restart but cannot be refreshed: after a refresh from a healthy origin the serial listed only in the newest list answers %v", v)
		}
		return nil
	}
	switch {
	case c.Scenario.Kind == "firstload" && c.Scenario.Rejected:
		return "", fmt.Errorf("location is treated as loaded after restart although the only list ever offered was rejected (%s)", state)
	case c.Scenario.Kind == "firstload":
		if !isNew {
			return "", fmt.Errorf("location is treated as loaded after restart but the data is not the complete accepted list (%s)", state)
		}
		return "loaded-new", refreshable()
	case c.Scenario.Rejected:
		if !isOld {
			return "", fmt.Errorf("after a crash during a REJECTED refresh the location is loaded with something else than the complete previous list (%s)", state)
		}
		return "loaded-old", refreshable()
	default:
		if isOld {
			return "loaded-old", refreshable()
		}
		if isNew {
			return "loaded-new", refreshable()
		}
		return "", fmt.Errorf("location is treated as loaded after restart but the data is neither the complete old nor the complete new list (%s)", state)
	}
}

func keys(m map[string]bool) []string {
	var k []string
	for x := range m {
		k = append(k, x)
	}
	sort.Strings(k)
	return k
}

var (
	cleanMu    sync.Mutex
	cleanCache = map[string]map[string]bool{}
	siteCache  = map[string][]string{}
)

// cleanNamesFor runs the scenario without a crash, restarts, and records what a healthy work_dir
// contains and which sites the scenario passes.
func cleanNamesFor(sc Scenario) (map[string]bool, []string, error) {
	k := fmt.Sprintf("%+v", sc)
	cleanMu.Lock()
	defer cleanMu.Unlock()
	if m, ok := cleanCache[k]; ok {
		return m, siteCache[k], nil
	}
	e := setupOrigin(sc, 0)
	defer e.origin.Close()
	defer os.RemoveAll(filepath.Dir(e.wd))
	rec := filepath.Join(filepath.Dir(e.wd), "sites.txt")
	defer os.Remove(rec)
	out, err := e.runChild(sc, -1, rec, 0)
	if err != nil || !strings.Contains(out, "CHILD-DONE") {
		return nil, nil, fmt.Errorf("clean run of scenario %+v failed: %v\n%s", sc, err, out)
	}
	b, _ := os.ReadFile(rec)
	sites := strings.Fields(string(b))
	res, err := e.restartAndJudge(Case{Scenario: sc, KillAt: -1}, nil)
	if err != nil {
		return nil, nil, fmt.Errorf("crash-free run: %v", err)
	}
	want := "loaded-new"
	if sc.Rejected {
		want = "loaded-old"
		if sc.Kind == "firstload" {
			want = "not-loaded"
		}
	}
	if res != want {
		return nil, nil, fmt.Errorf("crash-free run of %+v ended in state %s, expected %s", sc, res, want)
	}
	m := map[string]bool{}
	for _, n := range listDir(e.wd) {
		m[n] = true
	}
	cleanCache[k] = m
	siteCache[k] = sites
	return m, sites, nil
}

func runCase(c Case, x *ev.Ctx) error {
	clean, _, err := cleanNamesFor(c.Scenario)
	if err != nil {
		return err
	}
	trickle := time.Duration(0)
	if c.Timed {
		trickle = 2 * time.Millisecond
	}
	e := setupOrigin(c.Scenario, trickle)
	defer e.origin.Close()
	defer os.RemoveAll(filepath.Dir(e.wd))
	var out string
	if c.Timed {
		out, err = e.runChild(c.Scenario, -1, "", time.Duration(c.DelayUS)*time.Microsecond)
	} else {
		out, err = e.runChild(c.Scenario, c.KillAt, "", 0)
	}
	if err != nil {
		return fmt.Errorf("child: %v\n%s", err, out)
	}
	if strings.Contains(out, "CHILD-PROVISION-ERROR") || strings.Contains(out, "CHILD-FIRST-LOAD-FAILED") {
		return fmt.Errorf("setup: child could not reach the scenario: %s", out)
	}
	killed := !strings.Contains(out, "CHILD-DONE")
	res, err := e.restartAndJudge(c, clean)
	if err != nil {
		return fmt.Errorf("crash at %s in scenario %+v: %v", c.Site, c.Scenario, err)
	}
	x.Classf("state-after-restart=%s", res)
	x.Classf("scenario=%s/rejected=%v", c.Scenario.Kind, c.Scenario.Rejected)
	if killed {
		site := c.Site
		if i := strings.Index(site, "#"); i >= 0 {
			site = site[:i]
		}
		x.Classf("killed-at=%s", site)
		x.NonTrivial(fmt.Sprintf("%+v|%d|%s|%v|%d", c.Scenario, c.KillAt, c.Site, c.Timed, c.DelayUS/200))
	} else if c.Timed {
		x.Class("timed-kill-after-completion")
	}
	return nil
}

var spec = ev.Spec[Case]{
	ID:          "C12",
	Run:         runCase,
	Rule:        "crash-point enumeration: scenarios {first load, refresh} x {accepted, rejected signature} x list sizes x DER/PEM on disk storage with signature mode verify. A recording run lists every hook site (each step of LevelDbStore.Update, repository stage/commit/swap points) and every store write (start / insert #i / ext-meta / signer / locations) the scenario passes; then for every index of that sequence (quick: per-entry insert points of larger lists thinned out) a child process re-runs the scenario and SIGKILLs itself at that site, so the work_dir left behind is the real crash image. The parent restarts a fresh checker on the image with the origin broken and strict mode on and judges: if the location is treated as loaded (unlisted probe accepted) then old-only/new-only/common/last-common probes must show exactly one complete accepted list (never the rejected one); 'not loaded' and a clean error are always acceptable; after restart the work_dir (whose path contains glob / regexp meta characters in three of five cases and is a symbolic link in one of five) holds no crl_*_tmp and nothing a crash-free run does not leave either; a location that counts as loaded can be refreshed from a healthy origin. A second phase adds parent-timed SIGKILLs at drawn delays while the origin trickles the body. Non-trivial: the child was really killed; distinct by (scenario, site index / delay bucket).",
	Assumptions: []string{"process death, not power loss: the page cache survives (no fsync ordering is checked)"},
}

func scenarios() []Scenario {
	var s []Scenario
	sizes := []int{1, 12}
	if ev.Thorough() {
		sizes = []int{1, 3, 40, 300}
	}
	for _, kind := range []string{"firstload", "refresh"} {
		for _, rej := range []bool{false, true} {
			for i, n := range sizes {
				s = append(s, Scenario{Kind: kind, Rejected: rej, N: n, PEM: i%2 == 1})
			}
		}
	}
	return s
}

func TestCrashPoints(t *testing.T) {
	var cases []Case
	for _, sc := range scenarios() {
		_, sites, err := cleanNamesFor(sc)
		if err != nil {
			t.Fatalf("recording run failed: %v", err)
		}
		step := 1
		if !ev.Thorough() && len(sites) > 40 {
			step = len(sites)/40 + 1
		}
		for i, s := range sites {
			if step > 1 && strings.HasPrefix(s, "write:InsertRevokedCert") && i%step != 0 {
				continue
			}
			cases = append(cases, Case{Scenario: sc, KillAt: i, Site: fmt.Sprintf("%s#%d", s, i)})
		}
	}
	ev.Enumerate(t, spec, cases, ev.Thorough())
}

func TestTimedKills(t *testing.T) {
	var cases []Case
	n := 36
	if ev.Thorough() {
		n = 300
	}
	r := newPRNG(uint64(ev.Seed())*7919 + 17)
	scs := []Scenario{{Kind: "firstload", N: 400}, {Kind: "refresh", N: 400}, {Kind: "refresh", N: 400, Rejected: true}, {Kind: "firstload", N: 400, Rejected: true, PEM: true}}
	for i := 0; i < n; i++ {
		cases = append(cases, Case{Scenario: scs[i%len(scs)], KillAt: -1, Timed: true, DelayUS: 15000 + int(r.next()%110000), Site: "timed"})
	}
	ev.Enumerate(t, spec, cases, false)
}

type prng struct{ s uint64 }

func newPRNG(seed uint64) *prng { return &prng{seed | 1} }
func (p *prng) next() uint64 {
	p.s ^= p.s << 13
	p.s ^= p.s >> 7
	p.s ^= p.s << 17
	return p.s
}

func TestMain(m *testing.M) {
	code := m.Run()
	world.Cleanup()
	os.Exit(code)
}

func TestReplay(t *testing.T) { ev.Replay(t, spec) }
