package c01

import (
	"crypto/x509"
	"encoding/json"
	"fmt"
	"os"
	"path/filepath"
	"sync/atomic"
	"testing"

	"verifharness/ev"
	"verifharness/gen"
	"verifharness/world"

	"pgregory.net/rapid"
)

// Case is one listed certificate in one configuration.
type Case struct {
	N           int         `json:"n"`      // number of entries
	Pos         int         `json:"pos"`    // position of the listed entry (0..N-1)
	Listed      gen.Entry   `json:"listed"` // the listed entry (serial, date form, extensions)
	Filler      []gen.Entry `json:"filler"` // template entries cycled for the rest
	PEM         string      `json:"pem"`    // "" | lf | crlf
	V1          bool        `json:"v1"`     // version 1 CRL (no extensions at all)
	CAKey       string      `json:"ca_key"`
	Alg         string      `json:"alg"`
	Depth       int         `json:"depth"`
	Source      string      `json:"source"`       // crl_file | crl_url | crl_url-query-twin | cdp | cdp-of-other-leaf
	IssuerShape string      `json:"issuer_shape"` // cn | dc | email | cnfirst | multiou: shape of the issuing CA's name
	LeafCDP     string      `json:"leaf_cdp"`     // for configured sources: none | ldap-only | 404 | garbage (the certificate's OWN distribution point)
	Disk        bool        `json:"disk"`
	Mode        string      `json:"mode"`   // "" | prefer_ocsp | prefer_crl | crl_only
	OCSP        string      `json:"ocsp"`   // none | good | unknown | unavailable
	Sig         string      `json:"sig"`    // "" | verify | verify_log | none
	Signer      string      `json:"signer"` // ca | sibling (only with verify_log / none)
	Strict      bool        `json:"strict"`
	Distract    int         `json:"distract"` // distractor CRLs of other issuers (configured files)
	// DistractURL: a further CRL of another issuer is configured as crl_url (so that crl_urls and crl_files are both in use
	// when the list that matters is a crl_file)
	DistractURL bool `json:"distract_url,omitempty"`
	Background  bool `json:"background"`
}

func genCase(t *rapid.T) Case {
	c := Case{
		PEM:         rapid.SampledFrom([]string{"", "", "lf", "crlf"}).Draw(t, "pem"),
		V1:          rapid.IntRange(0, 4).Draw(t, "v1") == 0,
		CAKey:       rapid.SampledFrom(gen.AllCertKeys).Draw(t, "cakey"),
		Depth:       rapid.IntRange(1, 2).Draw(t, "depth"),
		Source:      rapid.SampledFrom([]string{"crl_file", "crl_url", "crl_url-query-twin", "cdp", "cdp", "cdp-of-other-leaf"}).Draw(t, "source"),
		IssuerShape: rapid.SampledFrom([]string{"cn", "cn", "dc", "email", "cnfirst", "multiou"}).Draw(t, "issuershape"),
		Disk:        rapid.Bool().Draw(t, "disk"),
		Mode:        rapid.SampledFrom([]string{"", "prefer_ocsp", "prefer_crl", "crl_only"}).Draw(t, "mode"),
		OCSP:        rapid.SampledFrom([]string{"none", "none", "good", "unknown", "unavailable"}).Draw(t, "ocsp"),
		Sig:         rapid.SampledFrom([]string{"", "verify", "verify", "verify_log", "none"}).Draw(t, "sig"),
		Signer:      "ca",
		Strict:      rapid.Bool().Draw(t, "strict"),
		Distract:    rapid.IntRange(0, 2).Draw(t, "distract"),
		DistractURL: rapid.Bool().Draw(t, "distracturl"),
		Background:  rapid.IntRange(0, 4).Draw(t, "bg") == 0,
	}
	c.Alg = rapid.SampledFrom(gen.CompatibleAlgs(gen.K(c.CAKey))).Draw(t, "alg")
	if (c.Sig == "verify_log" || c.Sig == "none") && rapid.Bool().Draw(t, "sibling") {
		c.Signer = "sibling"
	}
	if c.Source == "crl_file" || c.Source == "crl_url" || c.Source == "crl_url-query-twin" {
		c.LeafCDP = rapid.SampledFrom([]string{"none", "none", "ldap-only", "404", "garbage"}).Draw(t, "leafcdp")
	}
	switch rapid.IntRange(0, 9).Draw(t, "nclass") {
	case 0:
		c.N = 1
	case 1, 2, 3:
		c.N = rapid.IntRange(2, 10).Draw(t, "n_s")
	case 4, 5, 6:
		c.N = rapid.IntRange(60, 140).Draw(t, "n_m") // around the 4 KiB window
	case 7, 8:
		c.N = rapid.IntRange(141, 600).Draw(t, "n_l")
	default:
		c.N = rapid.IntRange(601, 3000).Draw(t, "n_xl")
	}
	switch rapid.IntRange(0, 3).Draw(t, "posclass") {
	case 0:
		c.Pos = 0
	case 1:
		c.Pos = c.N - 1
	case 2:
		c.Pos = c.N / 2
	default:
		c.Pos = rapid.IntRange(0, c.N-1).Draw(t, "pos")
	}
	c.Listed = gen.DrawEntry(t, "listed", !c.V1)
	for i := 0; i < 4; i++ {
		c.Filler = append(c.Filler, gen.DrawEntry(t, fmt.Sprintf("fill%d", i), !c.V1))
	}
	return c
}

var seq atomic.Int64

func (c *Case) entries() []gen.Entry {
	out := make([]gen.Entry, 0, c.N)
	for i := 0; i < c.N; i++ {
		if i == c.Pos {
			out = append(out, c.Listed)
			continue
		}
		e := c.Filler[i%len(c.Filler)]
		e.SerialHex = fmt.Sprintf("ee%s%06x", e.SerialHex[:min(len(e.SerialHex), 30)], i) // distinct from the listed serial and from the control
		out = append(out, e)
	}
	return out
}

func runCase(c Case, x *ev.Ctx) error {
	id := seq.Add(1)
	name := fmt.Sprintf("c01-%d-%d", os.Getpid(), id)
	crlOrigin, ocspOrigin := world.NewOrigin(), world.NewOrigin()
	defer crlOrigin.Close()
	defer ocspOrigin.Close()
	dir := world.NewDir("c01")
	defer os.RemoveAll(dir)
	wd := filepath.Join(dir, "work")
	os.MkdirAll(wd, 0o755)
	// legal issuer names of several shapes (Active Directory style DC components, emailAddress, common name
	// first, repeated OU): the CRL and the certificate carry exactly this encoding
	var caName gen.NameSpec
	switch c.IssuerShape {
	case "dc":
		caName = gen.NameSpec{{{T: "DC", V: "example", Kind: "ia5"}}, {{T: "DC", V: "corp", Kind: "ia5"}}, {{T: "CN", V: name + " ca"}}}
	case "email":
		caName = gen.NameSpec{{{T: "C", V: "DE"}}, {{T: "O", V: "verif"}}, {{T: "CN", V: name + " ca"}}, {{T: "EMAIL", V: "ca@example.org", Kind: "ia5"}}}
	case "cnfirst":
		caName = gen.NameSpec{{{T: "CN", V: name + " ca"}}, {{T: "OU", V: "pki"}}, {{T: "O", V: "verif"}}, {{T: "C", V: "DE"}}}
	case "multiou":
		caName = gen.NameSpec{{{T: "C", V: "DE"}}, {{T: "OU", V: "a"}}, {{T: "O", V: "verif"}}, {{T: "OU", V: "b"}}, {{T: "CN", V: name + " ca"}}}
	default:
		caName = gen.CN(name + " ca")
	}
	var root, ca *gen.Cert
	if c.Depth == 1 {
		ca = gen.Issue(gen.CertSpec{Key: c.CAKey, Subject: caName, SerialHex: "1001", IsCA: true}, nil)
		root = ca
	} else {
		rk := "p256a"
		if c.CAKey == rk {
			rk = "p256b"
		}
		root = gen.Issue(gen.CertSpec{Key: rk, Subject: gen.CN(name + " root"), SerialHex: "1000", IsCA: true}, nil)
		ca = gen.Issue(gen.CertSpec{Key: c.CAKey, Subject: caName, SerialHex: "1001", IsCA: true}, root)
	}
	signer := ca
	if c.Signer == "sibling" {
		if gen.K(c.CAKey).IsRSA() {
			signer = gen.Issue(gen.CertSpec{Key: "rsa2048d", Subject: caName, SerialHex: "1001", IsCA: true}, nil)
		} else {
			signer = gen.Issue(gen.CertSpec{Key: "p256e", Subject: caName, SerialHex: "1001", IsCA: true}, nil)
		}
	}
	// the list
	spec := gen.CRLSpec{Version: 1, SigAlg: c.Alg, IssuerDER: ca.Cert.RawSubject, ThisUpdate: 1700000000, NextUpdate: 1900000000, HasExts: true,
		Exts: []gen.Ext{gen.CRLNumberExt([]byte{1})}, Entries: c.entries()}
	if c.Signer == "sibling" {
		spec.SigAlg = gen.CompatibleAlgs(signer.Key)[2]
	}
	if ext, ok := gen.AKIExtension("keyid", signer.Cert); ok {
		spec.Exts = append(spec.Exts, gen.Ext{OID: gen.OIDAKI, Value: ext.Value})
	}
	if c.V1 {
		spec.Version, spec.HasExts, spec.Exts = -1, false, nil
	}
	der := spec.MustBuild(signer.Key)
	if ref, err := gen.RefDecode(der); err != nil || len(ref.Entries) != c.N {
		panic(fmt.Sprintf("generator: list does not round-trip through the reference decoder: %v", err))
	}
	body := der
	switch c.PEM {
	case "lf":
		body = gen.PEMEncode(der, false)
	case "crlf":
		body = gen.PEMEncode(der, true)
	}
	crlOrigin.Serve("/list.crl", body)
	crlFile := filepath.Join(dir, "list.crl")
	os.WriteFile(crlFile, body, 0o600)
	listURL := crlOrigin.URL("/list.crl")
	// the certificate's own distribution point
	var cdp []string
	switch c.Source {
	case "cdp", "cdp-of-other-leaf":
		cdp = []string{listURL}
	default:
		switch c.LeafCDP {
		case "ldap-only":
			cdp = []string{"ldap://directory.invalid/cn=ca?certificateRevocationList"}
		case "404":
			crlOrigin.Status("/own.crl", 404, "not found")
			cdp = []string{crlOrigin.URL("/own.crl")}
		case "garbage":
			crlOrigin.Serve("/own.crl", []byte("<html>maintenance</html>"))
			cdp = []string{crlOrigin.URL("/own.crl")}
		}
	}
	if c.Source == "cdp-of-other-leaf" {
		cdp = nil // the presented certificate names no CDP itself; another certificate of the same CA did
	}
	var aia []string
	if c.OCSP != "none" {
		aia = []string{ocspOrigin.URL("/ocsp")}
	}
	mk := func(serial string, cdp []string) [][]*x509.Certificate {
		l := gen.Issue(gen.CertSpec{Key: "p256f", Subject: gen.CN(name + " client " + serial), SerialHex: serial, CDP: cdp, OCSP: aia}, ca)
		ch := []*x509.Certificate{l.Cert, ca.Cert}
		if c.Depth == 2 {
			ch = append(ch, root.Cert)
		}
		return [][]*x509.Certificate{ch}
	}
	listed := mk(c.Listed.SerialHex, cdp)
	control := mk("0c0ffee1", cdp)
	leafForOCSP := gen.Issue(gen.CertSpec{Key: "p256f", Subject: gen.CN(name + " x"), SerialHex: "01"}, ca)
	parties := world.NewOCSPParties(name, ca, leafForOCSP)
	switch c.OCSP {
	case "good", "unknown":
		world.NewResponder(ocspOrigin, "/ocsp", parties, world.OCSPAnswer{Kind: c.OCSP})
	case "unavailable":
		world.NewResponder(ocspOrigin, "/ocsp", parties, world.OCSPAnswer{Kind: "http500"})
	}
	// config
	caFile := filepath.Join(dir, "ca.pem")
	os.WriteFile(caFile, ca.PEM(), 0o600)
	crlCfg := map[string]any{"work_dir": wd, "trusted_signature_certs_files": []string{caFile},
		"cdp_config": map[string]any{"crl_cdp_strict": c.Strict && c.LeafCDP == "" || c.Strict && c.LeafCDP == "none"}}
	if c.Background && (c.Source == "crl_file" || c.Source == "crl_url") {
		// configured lists are loaded synchronously in both fetch modes; the timing of CDP fetches in background mode is C10's subject
		crlCfg["cdp_config"].(map[string]any)["crl_fetch_mode"] = "fetch_background"
	}
	if c.Disk {
		crlCfg["storage_type"] = "disk"
	} else {
		crlCfg["storage_type"] = "memory"
	}
	if c.Sig != "" {
		crlCfg["signature_validation_mode"] = c.Sig
	}
	var files []string
	for i := 0; i < c.Distract; i++ {
		other := world.NewSimplePKI(fmt.Sprintf("%s distract %d", name, i), "p256d", "")
		f := filepath.Join(dir, fmt.Sprintf("distract%d.crl", i))
		os.WriteFile(f, other.CRL(1, c.Listed.SerialHex, "0c0ffee1"), 0o600) // lists the same serials under ANOTHER issuer
		files = append(files, f)
		crlCfg["trusted_signature_certs_files"] = append(crlCfg["trusted_signature_certs_files"].([]string), writePEM(dir, fmt.Sprintf("d%d.pem", i), other.Root))
	}
	switch c.Source {
	case "crl_file":
		files = append(files, crlFile)
	case "crl_url":
		crlCfg["crl_urls"] = []string{listURL}
	case "crl_url-query-twin":
		// two configured locations on the same host and path that differ only in the query string; the list
		// that revokes the certificate is the second one
		decoy := world.NewSimplePKI(name+" decoy", "p256d", "")
		crlOrigin.Serve("/certdist?cmd=crl&issuer=CA1", decoy.CRL(1, "0101"))
		crlOrigin.Serve("/certdist?cmd=crl&issuer=CA2", body)
		crlCfg["crl_urls"] = []string{crlOrigin.URL("/certdist?cmd=crl&issuer=CA1"), crlOrigin.URL("/certdist?cmd=crl&issuer=CA2")}
		crlCfg["trusted_signature_certs_files"] = append(crlCfg["trusted_signature_certs_files"].([]string), writePEM(dir, "decoy.pem", decoy.Root))
	}
	if c.DistractURL && c.Source != "crl_url-query-twin" {
		other := world.NewSimplePKI(name+" distract url", "p256d", "")
		crlOrigin.Serve("/distract-url.crl", other.CRL(1, c.Listed.SerialHex, "0c0ffee2"))
		urls, _ := crlCfg["crl_urls"].([]string)
		crlCfg["crl_urls"] = append([]string{crlOrigin.URL("/distract-url.crl")}, urls...)
		crlCfg["trusted_signature_certs_files"] = append(crlCfg["trusted_signature_certs_files"].([]string), writePEM(dir, "durl.pem", other.Root))
	}
	if len(files) > 0 {
		crlCfg["crl_files"] = files
	}
	cfg := map[string]any{"crl_config": crlCfg}
	if c.Mode != "" {
		cfg["mode"] = c.Mode
	}
	raw, _ := json.Marshal(cfg)
	v, err := world.LoadValidatorJSON(raw)
	if err != nil {
		return fmt.Errorf("provisioning failed although every configured CRL is acceptable under %q: %v", c.Sig, err)
	}
	defer v.Close()
	verify := func(ch [][]*x509.Certificate) error {
		type res struct{ err error }
		r, werr := world.Call("VerifyClientCertificate", world.DefaultWatchdog, func() res { return res{v.V.VerifyClientCertificate(nil, ch)} })
		if werr != nil {
			return fmt.Errorf("watchdog: %v", werr)
		}
		return r.err
	}
	if c.Source == "cdp-of-other-leaf" {
		// another certificate of the same CA names the CDP and brings the list into force
		if err := verify(mk("0c0ffee2", []string{listURL})); err != nil {
			x.Class("blocked")
			return fmt.Errorf("setup: the certificate that names the CDP was rejected: %v", err)
		}
	}
	// vacuity guard: the unlisted sibling serial is accepted (the list is in force and nothing else blocks)
	if err := verify(control); err != nil {
		if c.OCSP == "unavailable" || c.OCSP == "unknown" {
			x.Class("blocked-by-ocsp")
		}
		x.Class("blocked")
		return fmt.Errorf("control: unlisted certificate was rejected, the case cannot show anything: %v", err)
	}
	if err := verify(listed); err == nil {
		return fmt.Errorf("certificate with serial %s is LISTED at position %d of %d (source %s, own CDP %q, %s storage, mode %q, ocsp %s, sig %q/%s, pem %q, v1 %v, key %s/%s) but the handshake was ACCEPTED",
			c.Listed.SerialHex, c.Pos, c.N, c.Source, c.LeafCDP, map[bool]string{true: "disk", false: "memory"}[c.Disk], c.Mode, c.OCSP, c.Sig, c.Signer, c.PEM, c.V1, c.CAKey, c.Alg)
	}
	x.Classf("source=%s", c.Source)
	x.Classf("issuer-shape=%s", c.IssuerShape)
	x.Classf("mode=%s", c.Mode)
	x.Classf("n=%s", nBucket(c.N))
	x.Classf("serial-bytes=%d", len(c.Listed.SerialHex)/2)
	if c.LeafCDP != "" && c.LeafCDP != "none" {
		x.Classf("own-cdp-unusable=%s", c.LeafCDP)
	}
	if c.N >= 2 || len(c.Listed.SerialHex) > 16 || c.PEM != "" {
		x.NonTrivial(fmt.Sprintf("%s|%s|%v|%s|%s|%s|%d|%s|%d|%v|%s|%s", c.IssuerShape, c.Source, c.Disk, c.Mode, c.PEM, nBucket(c.N), posClass(c), c.Listed.SerialHex, len(c.Listed.Exts), c.V1, c.OCSP, c.Sig))
	}
	return nil
}

func writePEM(dir, name string, c *gen.Cert) string {
	p := filepath.Join(dir, name)
	os.WriteFile(p, c.PEM(), 0o600)
	return p
}

func posClass(c Case) int {
	switch c.Pos {
	case 0:
		return 0
	case c.N - 1:
		return 2
	}
	return 1
}

func nBucket(n int) string {
	switch {
	case n == 1:
		return "1"
	case n <= 10:
		return "2-10"
	case n <= 140:
		return "60-140"
	case n <= 600:
		return "141-600"
	case n <= 3000:
		return "601-3000"
	}
	return ">3000"
}

var spec = ev.Spec[Case]{
	ID:          "C01",
	Gen:         genCase,
	Run:         runCase,
	Rule:        "rapid draws a PKI (14 CA keys, depth 1..2), a well-formed CRL accepted under the drawn signature policy (verify: signed by the CA; verify_log/none: also by a same-name sibling), N in {1, 2..10, 60..140 (around the 4 KiB window), 141..600, 601..3000} entries, the listed entry at first/last/middle/random position with a serial of 1..20 bytes (incl. 2^63 / 2^64 edges, high-bit bytes), UTC/Generalized date and entry extensions, v1 or v2, DER / PEM-LF / PEM-CRLF; source in {crl_files, crl_urls, the certificate's CDP, the CDP of another certificate seen before}; for configured sources the certificate's own CDP may be unusable (ldap only, 404, garbage); 0..2 distractor CRLs listing the same serial under other issuers as crl_files and optionally one as crl_url (so that both configured kinds are in use together); storage, fetch mode, mode in {unset, prefer_ocsp, prefer_crl, crl_only}, OCSP side in {no AIA, good, unknown, unavailable}. Run through the real module (JSON -> LoadModuleByID -> VerifyClientCertificate). Oracle: the listed certificate is rejected; vacuity guard: an unlisted sibling certificate is accepted first. Non-trivial: N >= 2 or serial > 8 bytes or PEM; distinct by (source, storage, mode, encoding, N bucket, position class, serial, extensions, version, OCSP side, policy).",
	Assumptions: []string{"FNV-64 key collisions are outside the claim"},
}

func TestMain(m *testing.M) {
	world.QuietCaddy()
	code := m.Run()
	world.Cleanup()
	os.Exit(code)
}

func TestProp(t *testing.T)   { ev.Check(t, spec) }
func TestReplay(t *testing.T) { ev.Replay(t, spec) }
