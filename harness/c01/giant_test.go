package c01

import (
	"crypto/x509"
	"encoding/json"
	"fmt"
	"os"
	"path/filepath"
	"testing"
	"time"

	"verifharness/ev"
	"verifharness/gen"
	"verifharness/world"
)

// Giant is a very large list taken in through crl_files; the listed certificate is at a chosen position.
type Giant struct {
	N    int    `json:"n"`
	Pos  string `json:"pos"` // first | last | middle
	Disk bool   `json:"disk"`
	PEM  bool   `json:"pem"`
}

func runGiant(g Giant, x *ev.Ctx) error {
	name := fmt.Sprintf("c01g-%d-%d", os.Getpid(), seq.Add(1))
	dir := world.NewDir("c01g")
	defer os.RemoveAll(dir)
	wd := filepath.Join(dir, "work")
	os.MkdirAll(wd, 0o755)
	ca := gen.Issue(gen.CertSpec{Key: "p256a", Subject: gen.CN(name + " ca"), SerialHex: "1001", IsCA: true}, nil)
	pos := map[string]int{"first": 0, "last": g.N - 1, "middle": g.N / 2}[g.Pos]
	listedSerial := "8000000000000000000000000000000000000001"
	spec := gen.CRLSpec{Version: 1, SigAlg: "sha256ecdsa", IssuerDER: ca.Cert.RawSubject, ThisUpdate: 1700000000, NextUpdate: 1900000000, HasExts: true,
		Exts: []gen.Ext{gen.CRLNumberExt([]byte{1})}, N: g.N}
	spec.EntryFn = func(i int) gen.Entry {
		if i == pos {
			return gen.Entry{SerialHex: listedSerial, Date: 1690000000, Exts: []gen.Ext{gen.ReasonExt(1)}}
		}
		return gen.Entry{SerialHex: fmt.Sprintf("ee%016x%06x", uint64(i)*0x9e3779b97f4a7c15, i), Date: 1690000000 + int64(i%1000)}
	}
	crlFile := filepath.Join(dir, "giant.crl")
	f, _ := os.Create(crlFile)
	var err error
	if g.PEM {
		err = spec.WritePEM(f, ca.Key, false)
	} else {
		err = spec.WriteDER(f, ca.Key)
	}
	f.Close()
	if err != nil {
		panic(err)
	}
	caFile := writePEM(dir, "ca.pem", ca)
	st := "memory"
	if g.Disk {
		st = "disk"
	}
	raw, _ := json.Marshal(map[string]any{"mode": "crl_only", "crl_config": map[string]any{"work_dir": wd, "storage_type": st, "crl_files": []string{crlFile}, "trusted_signature_certs_files": []string{caFile}}})
	v, err := world.LoadValidatorJSONWithin(raw, 20*time.Minute)
	if err != nil {
		return fmt.Errorf("provisioning with a %d-entry list failed: %v", g.N, err)
	}
	defer v.Close()
	mk := func(serial string) [][]*x509.Certificate {
		l := gen.Issue(gen.CertSpec{Key: "p256f", Subject: gen.CN(name + " client"), SerialHex: serial}, ca)
		return [][]*x509.Certificate{{l.Cert, ca.Cert}}
	}
	if err := v.V.VerifyClientCertificate(nil, mk("0c0ffee1")); err != nil {
		return fmt.Errorf("control: unlisted certificate rejected: %v", err)
	}
	if err := v.V.VerifyClientCertificate(nil, mk(listedSerial)); err == nil {
		return fmt.Errorf("certificate listed at position %s of a %d-entry list (%s storage, pem %v) was ACCEPTED", g.Pos, g.N, st, g.PEM)
	}
	x.Classf("giant-n=%d", g.N)
	x.NonTrivial(fmt.Sprintf("giant|%+v", g))
	return nil
}

var giantSpec = ev.Spec[Giant]{ID: "C01", Run: runGiant,
	Rule: "size classes beyond the random range: lists of 10^5 entries (quick: 40 000) and, in the thorough tier, 10^6 entries written by the streaming encoder and configured as crl_files on both back-ends; the listed certificate (20-byte serial with the high bit set) sits at the first / middle / last position"}

func TestGiant(t *testing.T) {
	cases := []Giant{{N: 40000, Pos: "last", Disk: true}, {N: 40000, Pos: "first", Disk: false, PEM: true}}
	if ev.Thorough() {
		cases = []Giant{{N: 100000, Pos: "last", Disk: true}, {N: 100000, Pos: "middle", Disk: false}, {N: 100000, Pos: "first", Disk: true, PEM: true},
			{N: 1000000, Pos: "last", Disk: true}, {N: 1000000, Pos: "last", Disk: false}}
	}
	ev.Enumerate(t, giantSpec, cases, false)
}

func TestReplayGiant(t *testing.T) { ev.Replay(t, giantSpec) }
