package c16

import (
	"fmt"
	"math/rand/v2"
	"os"
	"testing"

	"verifharness/ev"
	"verifharness/sim"
	"verifharness/world"
)

// Cell is one cell of the policy matrix, expanded into a history.
type Cell struct {
	Mode    string   `json:"mode"`   // "" | verify | verify_log | none
	Signer  string   `json:"signer"` // good | unknown-signer | badsig
	Intake  string   `json:"intake"` // conf-file | conf-url | cdp-first | refresh | refresh-after-restart
	Disk    bool     `json:"disk"`
	Bg      bool     `json:"background"`
	History sim.Spec `json:"history"`
}

func subset(r *rand.Rand, must int) []int {
	s := []int{must}
	for i := range sim.EntryU {
		if i != must && r.IntN(3) == 0 {
			s = append(s, i)
		}
	}
	return s
}

func probes(cdp int) []sim.Event {
	var ev []sim.Event
	for p := range sim.ProbeU {
		if p < 8 || p == 10 {
			ev = append(ev, sim.Event{Kind: "handshake", CDP: cdp, Probe: p})
		}
	}
	return ev
}

func cells(seed int) []Cell {
	var out []Cell
	r := rand.New(rand.NewPCG(uint64(seed), 0xc16))
	for _, mode := range []string{"", "verify", "verify_log", "none"} {
		for _, signer := range []string{"good", "unknown-signer", "badsig", "rekeyed-trusted"} {
			for _, intake := range []string{"conf-file", "conf-url", "cdp-first", "refresh", "refresh-after-restart"} {
				for _, disk := range []bool{false, true} {
					for _, bg := range []bool{false, true} {
						if intake == "refresh-after-restart" && !disk {
							continue
						}
						if signer == "rekeyed-trusted" && (intake == "refresh" || intake == "refresh-after-restart") {
							// a refresh is verified against the signer stored with the list in force; whether a list signed by
							// ANOTHER entitled signer is adopted on refresh is the conservative side the property leaves open
							continue
						}
						c := Cell{Mode: mode, Signer: signer, Intake: intake, Disk: disk, Bg: bg}
						h := sim.Spec{Issuers: 1 + r.IntN(2), Config: sim.Config{Disk: disk, Background: bg, Sig: mode, Strict: true, TrustSigners: true}}
						// in a quarter of the cells the signer certificates are past their notAfter (the persisted one, too)
						h.Config.ExpiredSigners = r.IntN(4) == 0
						kind := signer
						if signer == "rekeyed-trusted" {
							// the CA was re-keyed: a certificate with the same name and the new key is a configured trusted
							// signer, the list is signed with the new key, the clients still chain to the old certificate
							kind = "badsig"
							h.Config.TrustSiblings = true
						}
						h.CDPs = []sim.CDPSpec{{Issuer: 0, Kind: "http", Twin: -1, NoAKI: r.IntN(2) == 0, PEM: r.IntN(3) == 0}}
						s1 := subset(r, r.IntN(3))
						s2 := subset(r, 3+r.IntN(4))
						k := sim.Content{Kind: kind, Set: s2}
						switch intake {
						case "conf-file", "conf-url":
							h.Initial = []sim.Content{{Kind: kind, Set: s1}}
							if intake == "conf-file" {
								h.Config.ConfFiles = []int{0}
							} else {
								h.Config.ConfURLs = []int{0}
							}
							h.Events = append(h.Events, probes(-1)...)
							h.Events = append(h.Events, sim.Event{Kind: "origin", CDP: 0, Content: k}, sim.Event{Kind: "tick"})
							h.Events = append(h.Events, probes(-1)...)
						case "cdp-first":
							h.Initial = []sim.Content{{Kind: kind, Set: s1}}
							h.Events = append(h.Events, probes(0)...)
						case "refresh":
							h.Initial = []sim.Content{{Kind: "good", Set: s1}}
							h.Events = append(h.Events, probes(0)[:2]...)
							h.Events = append(h.Events, sim.Event{Kind: "origin", CDP: 0, Content: k}, sim.Event{Kind: "tick"})
							h.Events = append(h.Events, probes(0)...)
						case "refresh-after-restart":
							h.Initial = []sim.Content{{Kind: "good", Set: s1}}
							h.Events = append(h.Events, probes(0)[:2]...)
							h.Events = append(h.Events, sim.Event{Kind: "restart"})
							h.Events = append(h.Events, probes(0)[:1]...)
							h.Events = append(h.Events, sim.Event{Kind: "origin", CDP: 0, Content: k}, sim.Event{Kind: "tick"})
							h.Events = append(h.Events, probes(0)...)
						}
						// "neither now nor after a restart": restart and look again (origin broken so nothing can be re-fetched)
						h.Events = append(h.Events, sim.Event{Kind: "origin", CDP: 0, Content: sim.Content{Kind: "httperr"}})
						if intake != "conf-file" && intake != "conf-url" {
							h.Events = append(h.Events, sim.Event{Kind: "restart"})
							h.Events = append(h.Events, probes(0)...)
						} else {
							// restart while the configured location serves a list signed by somebody else: provisioning
							// re-adds and refreshes the configured list with the configured trusted signers as chain
							s3 := subset(r, 7)
							h.Events = append(h.Events, sim.Event{Kind: "origin", CDP: 0, Content: sim.Content{Kind: []string{"badsig", "unknown-signer"}[r.IntN(2)], Set: s3}})
							h.Events = append(h.Events, sim.Event{Kind: "restart"})
							h.Events = append(h.Events, probes(-1)...)
						}
						c.History = h
						out = append(out, c)
					}
				}
			}
		}
	}
	// configuration change across a restart: a configured list accepted under verify_log / none must not be in force
	// once the process is restarted with 'verify' (or the mode unset) unless it verifies
	for _, m1 := range []string{"verify_log", "none"} {
		for _, m2 := range []string{"verify", ""} {
			for _, signer := range []string{"unknown-signer", "badsig", "good"} {
				for _, intake := range []string{"conf-file", "conf-url"} {
					for _, bg := range []bool{false, true} {
						c := Cell{Mode: m1 + "->" + m2, Signer: signer, Intake: intake + "+mode-change", Disk: true, Bg: bg}
						h := sim.Spec{Issuers: 1, Config: sim.Config{Disk: true, Background: bg, Sig: m1, Strict: true, TrustSigners: true}}
						h.CDPs = []sim.CDPSpec{{Issuer: 0, Kind: "http", Twin: -1}}
						h.Initial = []sim.Content{{Kind: signer, Set: subset(r, r.IntN(3))}}
						if intake == "conf-file" {
							h.Config.ConfFiles = []int{0}
						} else {
							h.Config.ConfURLs = []int{0}
						}
						h.Events = append(h.Events, probes(-1)...)
						h.Events = append(h.Events, sim.Event{Kind: "restart", SetSig: true, Sig: m2})
						h.Events = append(h.Events, probes(-1)...)
						c.History = h
						out = append(out, c)
					}
				}
			}
		}
	}
	// the trusted signer list is emptied across a restart: a configured list that was accepted (and persisted together with
	// its signer) while its signer was trusted must not come into force under 'verify' once nobody vouches for the signer
	for _, mode := range []string{"verify", ""} {
		for _, intake := range []string{"conf-file", "conf-url"} {
			for _, bg := range []bool{false, true} {
				c := Cell{Mode: mode, Signer: "good, then no longer trusted", Intake: intake + "+trust-list-emptied", Disk: true, Bg: bg}
				h := sim.Spec{Issuers: 1, Config: sim.Config{Disk: true, Background: bg, Sig: mode, Strict: true, TrustSigners: true}}
				h.CDPs = []sim.CDPSpec{{Issuer: 0, Kind: "http", Twin: -1}}
				h.Initial = []sim.Content{{Kind: "good", Set: subset(r, r.IntN(3))}}
				if intake == "conf-file" {
					h.Config.ConfFiles = []int{0}
				} else {
					h.Config.ConfURLs = []int{0}
				}
				h.Events = append(h.Events, probes(-1)...)
				h.Events = append(h.Events, sim.Event{Kind: "origin", CDP: 0, Content: sim.Content{Kind: "good", Set: subset(r, 3+r.IntN(4))}})
				h.Events = append(h.Events, sim.Event{Kind: "restart", SetTrust: true, Trust: false})
				h.Events = append(h.Events, probes(-1)...)
				c.History = h
				out = append(out, c)
			}
		}
	}
	// the same for a distribution-point list: taken in under verify_log / none (no verified signer is persisted with
	// it), then the policy is tightened and the process restarted. Whatever the new process does with the stored
	// list (it is EMPTY here, and the cell is lenient, so keeping and dropping it give the same verdicts - the
	// property's quantifier does not cover a change of mode), a refresh under 'verify' must not bring a list that
	// fails verification into force.
	for _, m1 := range []string{"verify_log", "none"} {
		for _, m2 := range []string{"verify", ""} {
			for _, k1 := range []string{"unknown-signer", "badsig", "good"} {
				for _, k2 := range []string{"unknown-signer", "badsig"} {
					for _, bg := range []bool{false, true} {
						c := Cell{Mode: m1 + "->" + m2, Signer: k1 + "->" + k2, Intake: "refresh-after-restart+mode-change", Disk: true, Bg: bg}
						h := sim.Spec{Issuers: 1, Config: sim.Config{Disk: true, Background: bg, Sig: m1, Strict: false, TrustSigners: false}}
						h.CDPs = []sim.CDPSpec{{Issuer: 0, Kind: "http", Twin: -1}}
						h.Initial = []sim.Content{{Kind: k1, Set: []int{}}}
						h.Events = append(h.Events, probes(0)[:2]...)
						h.Events = append(h.Events, sim.Event{Kind: "tick"})
						h.Events = append(h.Events, sim.Event{Kind: "restart", SetSig: true, Sig: m2})
						h.Events = append(h.Events, probes(0)[:1]...)
						h.Events = append(h.Events, sim.Event{Kind: "origin", CDP: 0, Content: sim.Content{Kind: k2, Set: subset(r, r.IntN(3))}}, sim.Event{Kind: "tick"})
						h.Events = append(h.Events, probes(0)...)
						h.Events = append(h.Events, sim.Event{Kind: "tick"})
						h.Events = append(h.Events, probes(0)...)
						c.History = h
						out = append(out, c)
					}
				}
			}
		}
	}
	return out
}

func runCell(c Cell, x *ev.Ctx) error {
	res, err := sim.Run(c.History, x, nil)
	if err != nil {
		return fmt.Errorf("cell mode=%q signer=%s intake=%s disk=%v background=%v: %v", c.Mode, c.Signer, c.Intake, c.Disk, c.Bg, err)
	}
	x.Classf("mode=%s", c.Mode)
	x.Classf("intake=%s", c.Intake)
	x.Classf("signer=%s", c.Signer)
	if res.ProvisionFailed {
		x.Class("provision-rejected-unacceptable-configured-crl")
	}
	x.NonTrivial(fmt.Sprintf("%s|%s|%s|%v|%v", c.Mode, c.Signer, c.Intake, c.Disk, c.Bg))
	return nil
}

var spec = ev.Spec[Cell]{
	ID:          "C16",
	Run:         runCell,
	Rule:        "exhaustive matrix: signature mode {unset, verify, verify_log, none} x signer {resolvable, unknown signer, wrong signature by a same-name sibling, re-keyed CA: the same-name sibling is a configured trusted signer} x intake path {provision-time crl_file, provision-time crl_url, first CDP fetch, refresh to a newer list, refresh after a restart (disk)} x storage x fetch mode, plus 48 cells in which a configured list accepted under verify_log / none is met again after a restart under verify / unset, plus 8 cells in which the trusted signer list is emptied across a restart while the configured location serves a newer list of the (formerly trusted) signer, plus 48 cells in which an (empty) distribution-point list taken in under verify_log / none is refreshed with a list that fails verification after a restart under verify / unset (lenient, so that the verdicts do not depend on whether the stored unverified list is kept); each cell is expanded into a history (probe handshakes before/after the intake, then origin broken, restart, probe handshakes again) executed on a real checker and compared with the reference model: under verify/unset a list is in force iff signer resolvable and signature right, on every path and after restart; under verify_log/none every parseable list is in force, provisioning succeeds and a refresh brings the NEW content into force. List contents, AKI presence, encoding and whether the signer certificates are past their notAfter are drawn from VERIF_SEED. Every cell is non-trivial.",
	Assumptions: []string{"configured CRLs in mode verify need a configured trusted signer (no handshake chain exists at provisioning); the cells configure one"},
}

func TestMain(m *testing.M) {
	code := m.Run()
	world.Cleanup()
	os.Exit(code)
}

func TestMatrix(t *testing.T) {
	n := 1
	if ev.Thorough() {
		n = 5
	}
	var all []Cell
	for i := 0; i < n; i++ {
		all = append(all, cells(ev.Seed()*100+i)...)
	}
	ev.Enumerate(t, spec, all, true)
}

func TestReplay(t *testing.T) { ev.Replay(t, spec) }
