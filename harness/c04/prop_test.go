package c04

import (
	"crypto/x509"
	"encoding/asn1"
	"fmt"
	"net/http"
	"os"
	"sync/atomic"
	"testing"

	"verifharness/ev"
	"verifharness/gen"
	"verifharness/world"

	"pgregory.net/rapid"
)

// Case is one (possibly forged) CRL offered under signature mode verify.
type Case struct {
	CAKey    string `json:"ca_key"`
	Depth    int    `json:"depth"` // 1: root issues leaves, 2: root -> issuing CA
	Alg      string `json:"alg"`   // algorithm of the authentic base
	AKI      string `json:"aki"`   // absent | keyid | issuerserial | both
	PEM      bool   `json:"pem"`
	Intake   string `json:"intake"` // first | refresh
	Disk     bool   `json:"disk"`
	Forgery  string `json:"forgery"` // see forgeries
	Region   string `json:"region,omitempty"`
	Pos      int    `json:"pos,omitempty"`
	Bit      int    `json:"bit,omitempty"`
	Byte     int    `json:"byte,omitempty"`       // 0: single bit flip; else XOR mask for a byte edit
	LeafIsCA bool   `json:"leaf_is_ca,omitempty"` // the presented (client) certificate carries CA:TRUE (a sub-CA certificate used for client auth)
	// LeafOnly: the verified chain consists of the client certificate alone (it is pinned in the trust pool); its issuing CA
	// is known to the validator as a configured trusted signer only
	LeafOnly bool `json:"leaf_only,omitempty"`
	// Background: crl_fetch_mode fetch_background (the first load happens in a refresh run, not in the handshake)
	Background bool `json:"background,omitempty"`
	// FailFirst (intake first): before the offered document is served, one load attempt fails on
	// garbage | http500 | truncated | the offered document itself (a second attempt with the same document)
	FailFirst string `json:"fail_first,omitempty"`
	// ExtraTrusted further (irrelevant) trusted signer certificates are configured.
	ExtraTrusted int `json:"extra_trusted,omitempty"`
	// Interleave: after the intake a client of ANOTHER CA the server accepts (the signer of the forgery for sibling /
	// unrelated) connects, a refresh runs and the probe is repeated: what another party's chain contains never
	// entitles its CA to sign this client's list.
	Interleave bool `json:"interleave,omitempty"`
	// Primed (forgery sibling / unrelated): before the intake ANOTHER validator instance of the same process, whose
	// configured trusted signer is the forgery's signer, takes in the very same bytes - for that instance they are
	// authentic. Whatever the process remembers about documents it has verified must not carry over to an instance
	// for which the signer is not entitled.
	Primed bool `json:"primed,omitempty"`
}

var forgeries = []string{
	"none", "none",
	"flip", "flip", "flip", "flip", "flip", "flip",
	"sibling", "leaf-key", "unrelated", "ca-without-crlsign", "trusted-signer", "trusted-without-crlsign",
	"alg-pss", "alg-ed25519", "alg-oid-other-family", "alg-hash-swap", "inner-outer-mismatch-resigned",
	"stale-signature", "stale-signature",
	"sig-length", "sig-length",
	"aki-serial-only",
}

var regions = []string{"tbs-body", "tbs-header", "inner-alg", "entries", "outer-alg-oid", "sig-bits", "sig-bits"}

func genCase(t *rapid.T) Case {
	c := Case{
		CAKey:    rapid.SampledFrom(gen.AllCertKeys).Draw(t, "cakey"),
		Depth:    rapid.IntRange(1, 2).Draw(t, "depth"),
		AKI:      rapid.SampledFrom([]string{"absent", "keyid", "issuerserial", "both"}).Draw(t, "aki"),
		PEM:      rapid.IntRange(0, 3).Draw(t, "pem") == 0,
		Intake:   rapid.SampledFrom([]string{"first", "first", "refresh"}).Draw(t, "intake"),
		Disk:     rapid.IntRange(0, 3).Draw(t, "disk") == 0,
		Forgery:  rapid.SampledFrom(forgeries).Draw(t, "forgery"),
		LeafIsCA: rapid.IntRange(0, 3).Draw(t, "leafisca") == 0,
	}
	c.LeafOnly = rapid.IntRange(0, 3).Draw(t, "leafonly") == 0
	c.Background = rapid.IntRange(0, 2).Draw(t, "background") == 0
	c.FailFirst = rapid.SampledFrom([]string{"", "", "garbage", "http500", "truncated", "same"}).Draw(t, "failfirst")
	c.ExtraTrusted = rapid.IntRange(0, 6).Draw(t, "extratrusted")
	c.Interleave = rapid.IntRange(0, 2).Draw(t, "interleave") > 0
	c.Primed = rapid.Bool().Draw(t, "primed")
	c.Alg = rapid.SampledFrom(gen.CompatibleAlgs(gen.K(c.CAKey))).Draw(t, "alg")
	if c.Forgery == "sig-length" {
		c.Pos = rapid.IntRange(0, 1).Draw(t, "siglen")
	}
	if c.Forgery == "flip" {
		c.Region = rapid.SampledFrom(regions).Draw(t, "region")
		c.Pos = rapid.IntRange(0, 1<<20).Draw(t, "pos")
		c.Bit = rapid.IntRange(0, 7).Draw(t, "bit")
		if rapid.IntRange(0, 3).Draw(t, "byteedit") == 0 {
			c.Byte = rapid.IntRange(1, 255).Draw(t, "mask")
		}
	}
	return c
}

var seq atomic.Int64

func otherKey(k string) string {
	if gen.K(k).IsRSA() {
		if k == "rsa2048d" {
			return "rsa2048c"
		}
		return "rsa2048d"
	}
	if k == "p521" {
		return "p384"
	}
	return "p521"
}

func runCase(c Case, x *ev.Ctx) error {
	id := seq.Add(1)
	name := fmt.Sprintf("c04-%d-%d", os.Getpid(), id)
	o := world.NewOrigin()
	defer o.Close()
	// PKI
	caKU := ""
	if c.Forgery == "ca-without-crlsign" {
		caKU = "certonly"
	}
	var root, ca *gen.Cert
	if c.Depth == 1 {
		root = gen.Issue(gen.CertSpec{Key: c.CAKey, Subject: gen.CN(name + " ca"), SerialHex: "1001", IsCA: true, KeyUsage: caKU}, nil)
		ca = root
	} else {
		rootKey := "p256a"
		if c.CAKey == rootKey {
			rootKey = "p256b"
		}
		root = gen.Issue(gen.CertSpec{Key: rootKey, Subject: gen.CN(name + " root"), SerialHex: "1000", IsCA: true}, nil)
		ca = gen.Issue(gen.CertSpec{Key: c.CAKey, Subject: gen.CN(name + " ca"), SerialHex: "1001", IsCA: true, KeyUsage: caKU}, root)
	}
	url := o.URL("/ca.crl")
	leaf := func(serial string) [][]*x509.Certificate {
		l := gen.Issue(gen.CertSpec{Key: "p256e", Subject: gen.CN(name + " client " + serial), SerialHex: serial, CDP: []string{url}, ForceSKI: true, IsCA: c.LeafIsCA}, ca)
		ch := []*x509.Certificate{l.Cert, ca.Cert}
		if c.Depth == 2 {
			ch = append(ch, root.Cert)
		}
		if c.LeafOnly {
			ch = ch[:1]
		}
		return [][]*x509.Certificate{ch}
	}
	unlisted, listedA, listedX := leaf("0c"), leaf("0a"), leaf("0b")
	theLeaf := gen.Issue(gen.CertSpec{Key: "p256e", Subject: gen.CN(name + " client 0c"), SerialHex: "0c", CDP: []string{url}, ForceSKI: true, IsCA: c.LeafIsCA}, ca)

	// signers for forgeries
	sibling := gen.Issue(gen.CertSpec{Key: otherKey(c.CAKey), Subject: gen.CN(name + " ca"), SerialHex: "1001", IsCA: true}, nil)
	unrelated := gen.Issue(gen.CertSpec{Key: otherKey(c.CAKey), Subject: gen.CN(name + " stranger"), SerialHex: "2001", IsCA: true}, nil)
	trustedKU := "crlonly"
	if c.Forgery == "trusted-without-crlsign" {
		trustedKU = "ds"
	}
	trusted := gen.Issue(gen.CertSpec{Key: otherKey(c.CAKey), Subject: gen.CN(name + " crl signer"), SerialHex: "3001", KeyUsage: trustedKU, NoEKU: true, ForceSKI: true}, ca)

	mkSpec := func(signer *gen.Cert, issuerDER []byte, alg string, serials ...string) gen.CRLSpec {
		s := gen.CRLSpec{Version: 1, SigAlg: alg, IssuerDER: issuerDER, ThisUpdate: 1700000000 + id, NextUpdate: 1900000000, HasExts: true,
			Exts: []gen.Ext{gen.CRLNumberExt([]byte{byte(id)})}}
		if ext, ok := gen.AKIExtension(c.AKI, signer.Cert); ok {
			s.Exts = append(s.Exts, gen.Ext{OID: gen.OIDAKI, Value: ext.Value})
		}
		for i, h := range serials {
			s.Entries = append(s.Entries, gen.Entry{SerialHex: h, Date: 1690000000 + int64(i)})
		}
		return s
	}
	encode := func(der []byte) []byte {
		if c.PEM {
			return gen.PEMEncode(der, false)
		}
		return der
	}
	baseA := mkSpec(ca, ca.Cert.RawSubject, c.Alg, "0a")
	baseAX := mkSpec(ca, ca.Cert.RawSubject, c.Alg, "0a", "0b")
	baseAX.ThisUpdate++
	baseParts, err := baseA.BuildParts(ca.Key) // the authentic list that is in force before a refresh
	if err != nil {
		panic(err)
	}

	// the offered document
	var offered []byte
	expectAuthentic := false // by construction
	grey := false
	algFor := func(k *gen.Key) string { return gen.CompatibleAlgs(k)[2] }
	switch c.Forgery {
	case "none":
		offered = baseAX.MustBuild(ca.Key)
		expectAuthentic = true
	case "ca-without-crlsign":
		offered = baseAX.MustBuild(ca.Key) // correct signature by a CA whose key usage forbids CRL signing
	case "flip":
		p, err := baseAX.BuildParts(ca.Key)
		if err != nil {
			panic(err)
		}
		target, lo, hi := regionOf(&p, c.Region)
		if hi <= lo {
			grey = true
			offered = p.Assemble()
			break
		}
		i := lo + c.Pos%(hi-lo)
		mask := byte(1 << c.Bit)
		if c.Byte != 0 {
			mask = byte(c.Byte)
		}
		(*target)[i] ^= mask
		offered = p.Assemble()
	case "stale-signature":
		// new content under the signature of the list that is (on the refresh path) currently in force
		p, _ := baseAX.BuildParts(ca.Key)
		p.SigBits = baseParts.SigBits
		offered = p.Assemble()
	case "sig-length":
		// the signature value is one byte longer (a leading zero octet: for RSA longer than the modulus) or one byte shorter
		p, _ := baseAX.BuildParts(ca.Key)
		var bs asn1.BitString
		if _, err := asn1.Unmarshal(p.SigBits, &bs); err != nil {
			panic(err)
		}
		sig := bs.Bytes
		if c.Pos%2 == 0 && ca.Key.IsRSA() {
			sig = append([]byte{0x00}, sig...)
		} else {
			sig = sig[:len(sig)-1]
		}
		p.SigBits = gen.TLV(0x03, []byte{0}, sig)
		offered = p.Assemble()
	case "sibling":
		s := mkSpec(sibling, ca.Cert.RawSubject, algFor(sibling.Key), "0a", "0b")
		offered = s.MustBuild(sibling.Key)
	case "unrelated":
		s := mkSpec(unrelated, unrelated.Cert.RawSubject, algFor(unrelated.Key), "0a", "0b")
		offered = s.MustBuild(unrelated.Key)
	case "leaf-key":
		// the client signs a CRL with its own key; issuer name and AKI are crafted to match the client certificate
		s := mkSpec(theLeaf, theLeaf.Cert.RawSubject, algFor(theLeaf.Key), "0a", "0b")
		offered = s.MustBuild(theLeaf.Key)
	case "trusted-signer", "trusted-without-crlsign":
		s := mkSpec(trusted, trusted.Cert.RawSubject, algFor(trusted.Key), "0a", "0b")
		offered = s.MustBuild(trusted.Key)
		expectAuthentic = c.Forgery == "trusted-signer"
	case "aki-serial-only":
		// a list in the CA's name signed by the configured trusted signer (another party's certificate); its authority key
		// identifier carries no keyIdentifier and names the signer by SERIAL NUMBER only - authorityCertIssuer is a URI, a
		// dNSName or an empty GeneralNames, so nothing in it matches the signer's issuer name
		s := mkSpec(trusted, ca.Cert.RawSubject, algFor(trusted.Key), "0a", "0b")
		var exts []gen.Ext
		for _, e := range s.Exts {
			if e.OID != gen.OIDAKI {
				exts = append(exts, e)
			}
		}
		ext, _ := gen.AKIExtension([]string{"uri-serial", "dns-serial", "emptynames-serial"}[c.Pos%3], trusted.Cert)
		s.Exts = append(exts, gen.Ext{OID: gen.OIDAKI, Value: ext.Value})
		offered = s.MustBuild(trusted.Key)
	case "alg-pss":
		if !ca.Key.IsRSA() {
			grey = true
			offered = baseAX.MustBuild(ca.Key)
			expectAuthentic = true
			break
		}
		s := baseAX
		s.SigAlg = "pss256"
		offered = s.MustBuild(ca.Key)
	case "alg-ed25519":
		ed := gen.Issue(gen.CertSpec{Key: "ed25519", Subject: gen.CN(name + " ca"), SerialHex: "1001", IsCA: true}, nil)
		s := mkSpec(ed, ca.Cert.RawSubject, "ed25519", "0a", "0b")
		offered = s.MustBuild(ed.Key)
	case "alg-oid-other-family":
		// signature made with the CA key, but the declared algorithm belongs to the other key family
		p, _ := baseAX.BuildParts(ca.Key)
		other := "sha256ecdsa"
		if !ca.Key.IsRSA() {
			other = "sha256rsa"
		}
		p.OuterAlg = gen.SigAlgs[other].AlgIDDER()
		offered = p.Assemble()
	case "alg-hash-swap":
		p, _ := baseAX.BuildParts(ca.Key)
		algs := gen.CompatibleAlgs(ca.Key)
		for _, a := range algs {
			if a != c.Alg {
				p.OuterAlg = gen.SigAlgs[a].AlgIDDER()
				break
			}
		}
		offered = p.Assemble()
	case "inner-outer-mismatch-resigned":
		// correctly signed under the outer algorithm while the inner (signed) algorithm field names another one:
		// the signature over the signed portion is valid, so this document is authentic in the sense of the property
		s := baseAX
		algs := gen.CompatibleAlgs(ca.Key)
		s.InnerAlg = algs[0]
		if s.InnerAlg == s.SigAlg {
			s.InnerAlg = algs[1]
		}
		offered = s.MustBuild(ca.Key)
		expectAuthentic = true
		grey = true
	}

	// reference authenticity (independent of how the case was built)
	admissible := []*x509.Certificate{ca.Cert}
	if c.Depth == 2 && !c.LeafOnly {
		admissible = append(admissible, root.Cert)
	}
	admissible = append(admissible, trusted.Cert)
	refAuth := false
	if ref, err := gen.RefDecode(offered); err == nil {
		refAuth = ref.Authentic(admissible)
	}
	if refAuth != expectAuthentic && !grey {
		panic(fmt.Sprintf("harness: construction says authentic=%v, reference says %v for forgery %s", expectAuthentic, refAuth, c.Forgery))
	}

	trustedList := []*x509.Certificate{trusted.Cert}
	if c.LeafOnly {
		trustedList = append(trustedList, ca.Cert) // nothing above the end-entity in the chain: the CA is a configured trusted signer
	}
	for i := 0; i < c.ExtraTrusted; i++ {
		extra := gen.Issue(gen.CertSpec{Key: "p256d", Subject: gen.CN(fmt.Sprintf("%s other signer %d", name, i)), SerialHex: fmt.Sprintf("40%02x", i), KeyUsage: "crlonly", NoEKU: true, ForceSKI: true}, unrelated)
		trustedList = append(trustedList, extra.Cert)
	}
	if c.Primed && (c.Forgery == "sibling" || c.Forgery == "unrelated") {
		signer := sibling
		if c.Forgery == "unrelated" {
			signer = unrelated
		}
		o.Serve("/primer.crl", encode(offered))
		primer, perr := world.NewChecker(world.CRLOpts{WorkDir: world.NewDir("c04p"), Strict: true, Sig: "verify", Trusted: []*x509.Certificate{signer.Cert}, URLs: []string{o.URL("/primer.crl")}})
		if perr == nil {
			x.Classf("primed-by-an-instance-trusting-the-signer=%s", c.Forgery)
			defer primer.Cleanup()
		} else {
			x.Classf("primer-could-not-provision=%s", c.Forgery)
		}
	}
	ch, err := world.NewChecker(world.CRLOpts{WorkDir: world.NewDir("c04"), Disk: c.Disk, Strict: true, Sig: "verify", Trusted: trustedList, Background: c.Background})
	if err != nil {
		return fmt.Errorf("setup: %v", err)
	}
	defer ch.Cleanup()

	inForce := false
	if c.Intake == "first" {
		if c.FailFirst != "" {
			// a first attempt that cannot succeed; the entry exists afterwards and is not loaded
			switch c.FailFirst {
			case "garbage":
				o.Serve("/ca.crl", []byte("<html>error</html>"))
			case "http500":
				o.Status("/ca.crl", 500, "down")
			case "truncated":
				// the FIRST request gets the first half of another (unauthentic) list whose entries - among them the
				// ghost serial 0d - come before the cut; every later request gets the offered document
				ghost := mkSpec(unrelated, ca.Cert.RawSubject, algFor(unrelated.Key), "0d", "0a", "0b", "e1", "e2", "e3", "e4", "e5", "e6", "e7", "e8")
				g := encode(ghost.MustBuild(unrelated.Key))
				o.Set("/ca.crl", func(w http.ResponseWriter, r *http.Request, _ []byte, n int) {
					if n == 1 {
						w.Write(g[:len(g)*2/3])
						return
					}
					w.Write(encode(offered))
				})
			case "same":
				o.Serve("/ca.crl", encode(offered))
			}
			v0 := world.Ask(ch, unlisted)
			ch.VerifForceUpdate()
			if c.FailFirst != "same" && v0.Kind != "error" {
				return fmt.Errorf("setup: strict handshake while the location serves %s answered %v", c.FailFirst, v0)
			}
			x.Classf("first-attempt-fails=%s", c.FailFirst)
		}
		o.Serve("/ca.crl", encode(offered))
		if c.Background {
			world.Ask(ch, unlisted)
			ch.VerifForceUpdate() // the refresh run that performs (or retries) the background load
		}
		v := world.Ask(ch, unlisted)
		switch v.Kind {
		case "ok":
			inForce = true
		case "error":
		default:
			return fmt.Errorf("first load of offered CRL (%s): unlisted probe answered %v", c.Forgery, v)
		}
	} else {
		o.Serve("/ca.crl", encode(baseParts.Assemble()))
		if c.Forgery == "ca-without-crlsign" {
			// the authentic base cannot exist for a CA that may not sign CRLs
			x.Class("refresh-skipped-no-authentic-base")
			return nil
		}
		if c.Background {
			world.Ask(ch, listedA) // announces the location
			ch.VerifForceUpdate()
		}
		if v := world.Ask(ch, listedA); v.Kind != "revoked" {
			x.Class("blocked-base-rejected")
			return fmt.Errorf("authentic base CRL (alg %s, key %s, AKI %s) was not taken into force: %v", c.Alg, c.CAKey, c.AKI, v)
		}
		if v := world.Ask(ch, listedX); v.Kind != "ok" {
			return fmt.Errorf("setup: serial 0b revoked before the refresh: %v", v)
		}
		// one authentic refresh first, so that the list in force has also been verified on the refresh path
		ch.VerifForceUpdate()
		o.Serve("/ca.crl", encode(offered))
		ch.VerifForceUpdate()
		v := world.Ask(ch, listedX)
		switch v.Kind {
		case "revoked":
			inForce = true
		case "ok":
		default:
			return fmt.Errorf("after refresh with offered CRL (%s): probe answered %v (the previous list must stay in force)", c.Forgery, v)
		}
	}
	if c.Interleave {
		// a client of another accepted CA connects (own CDP, authentic list of its own CA), then a refresh runs
		otherCA := unrelated
		if c.Forgery == "sibling" {
			otherCA = sibling
		}
		ol := gen.Issue(gen.CertSpec{Key: "p256d", Subject: gen.CN(name + " other party client"), SerialHex: "0d", CDP: []string{o.URL("/other.crl")}, ForceSKI: true}, otherCA)
		os := gen.CRLSpec{Version: 1, SigAlg: algFor(otherCA.Key), IssuerDER: otherCA.Cert.RawSubject, ThisUpdate: 1700000000, NextUpdate: 1900000000, Entries: []gen.Entry{{SerialHex: "77", Date: 1690000000}}}
		o.Serve("/other.crl", os.MustBuild(otherCA.Key))
		if c.Background {
			world.Ask(ch, [][]*x509.Certificate{{ol.Cert, otherCA.Cert}}) // announces the location; the refresh run below loads it
			ch.VerifForceUpdate()
		}
		if v := world.Ask(ch, [][]*x509.Certificate{{ol.Cert, otherCA.Cert}}); v.Kind != "ok" {
			return fmt.Errorf("setup: client of the other CA answered %v", v)
		}
		ch.VerifForceUpdate()
		x.Class("interleaved-other-ca-client")
		was := inForce
		if c.Intake == "first" {
			v := world.Ask(ch, unlisted)
			inForce = v.Kind == "ok"
			if v.Kind != "ok" && v.Kind != "error" {
				return fmt.Errorf("after another CA's client and a refresh (%s): unlisted probe answered %v", c.Forgery, v)
			}
		} else {
			v := world.Ask(ch, listedX)
			inForce = v.Kind == "revoked"
			if v.Kind != "ok" && v.Kind != "revoked" {
				return fmt.Errorf("after another CA's client and a refresh (%s): probe answered %v", c.Forgery, v)
			}
		}
		if inForce && !was {
			x.Class("in-force-only-after-interleave")
		}
		if was && !inForce {
			return fmt.Errorf("list in force before another CA's client connected is not in force afterwards (forgery=%s intake=%s)", c.Forgery, c.Intake)
		}
	}
	// entries of a document that was never accepted must not be in force under any circumstances
	if v := world.Ask(ch, leaf("0d")); v.Kind == "revoked" {
		return fmt.Errorf("serial 0d is revoked although it is listed only in a document that was never accepted (first attempt: %s, forgery %s, intake %s)", c.FailFirst, c.Forgery, c.Intake)
	}
	x.Classf("forgery=%s", c.Forgery)
	x.Classf("intake=%s", c.Intake)
	if c.Forgery == "flip" {
		x.Classf("flip-region=%s", c.Region)
	}
	if inForce {
		x.Class("in-force")
	}
	if grey {
		x.Class("grey-not-asserted")
		return nil
	}
	if inForce && !refAuth {
		return fmt.Errorf("CRL is in force under 'verify' although it is not authentic: forgery=%s region=%s pos=%d bit=%d mask=%#x alg=%s key=%s aki=%s intake=%s", c.Forgery, c.Region, c.Pos, c.Bit, c.Byte, c.Alg, c.CAKey, c.AKI, c.Intake)
	}
	if !inForce && refAuth && c.Forgery == "trusted-signer" && c.Intake == "refresh" {
		// a refresh is verified against the signer stored with the previous list; a change of signer is picked up
		// by a later handshake only. Not being in force is the conservative side of the property.
		x.Class("signer-change-on-refresh-not-adopted")
		return nil
	}
	if !inForce && refAuth {
		// acceptance of authentic lists is C01/C06 territory, but a harness that rejects everything would be vacuous
		return fmt.Errorf("authentic CRL (forgery=%s alg=%s key=%s aki=%s intake=%s pem=%v) was NOT taken into force", c.Forgery, c.Alg, c.CAKey, c.AKI, c.Intake, c.PEM)
	}
	x.NonTrivial(fmt.Sprintf("%s|%s|%s|%s|%s|%s|%d|%v|%d|%v|%v", c.Forgery, c.Region, c.Alg, c.AKI, c.Intake, c.CAKey, c.Depth, c.Pos%64, c.ExtraTrusted, c.Interleave, c.LeafOnly) + fmt.Sprint(c.Primed && (c.Forgery == "sibling" || c.Forgery == "unrelated")))
	return nil
}

// regionOf returns the byte slice to mutate and the [lo,hi) range of the region inside it.
func regionOf(p *gen.Parts, region string) (*[]byte, int, int) {
	hdr := func(b []byte) int {
		if b[1]&0x80 == 0 {
			return 2
		}
		return 2 + int(b[1]&0x7f)
	}
	tlvLen := func(b []byte) int {
		h := hdr(b)
		if b[1]&0x80 == 0 {
			return h + int(b[1])
		}
		n := 0
		for _, x := range b[2:h] {
			n = n<<8 | int(x)
		}
		return h + n
	}
	switch region {
	case "tbs-body":
		return &p.TBS, hdr(p.TBS), len(p.TBS)
	case "tbs-header":
		return &p.TBS, 0, hdr(p.TBS)
	case "inner-alg":
		off := hdr(p.TBS)
		off += tlvLen(p.TBS[off:]) // version
		return &p.TBS, off, off + tlvLen(p.TBS[off:])
	case "entries":
		off := hdr(p.TBS)
		for i := 0; i < 5; i++ { // version, alg, issuer, thisUpdate, nextUpdate
			off += tlvLen(p.TBS[off:])
		}
		return &p.TBS, off, off + tlvLen(p.TBS[off:])
	case "outer-alg-oid":
		h := hdr(p.OuterAlg)
		return &p.OuterAlg, h + 2, h + tlvLen(p.OuterAlg[h:])
	default: // sig-bits: the signature octets (after tag, length and the unused-bits octet)
		return &p.SigBits, hdr(p.SigBits) + 1, len(p.SigBits)
	}
}

var spec = ev.Spec[Case]{
	ID:   "C04",
	Gen:  genCase,
	Run:  runCase,
	Rule: "rapid draws a PKI (CA key from 14 pool keys incl. RSA-2048/3072 and P-224/256/384/521, depth 1..2), an authentic base CRL (all 10 supported algorithm pairs, AKI form absent/keyId/issuer+serial/both, DER/PEM) and one forgery: single-bit flip or byte edit at a drawn position of a drawn region (tbs body, tbs header, inner algorithm, entries, outer algorithm OID, signature bits); re-signing by a same-name sibling CA, an unrelated CA, the client certificate's own key with issuer/AKI crafted to match it, a CA whose key usage lacks cRLSign, a configured trusted signer with / without cRLSign; algorithm swaps (RSA-PSS, Ed25519, OID of the other key family, hash swap). The document is offered on the first-load path (CDP handshake, strict) or as a refresh after an authentic load. 'In force' is observed behaviourally (unlisted probe accepted / new-only probe revoked). Oracle: in force => authentic by the reference (Hash(raw tbs) under the outer OID verified with crypto/rsa or crypto/ecdsa against an entitled certificate: CA above the leaf or trusted signer, matching issuer name or AKI, key usage permitting cRLSign); the unforged and trusted-signer documents must be in force (vacuity guard). Non-trivial: every asserted case; distinct by (forgery, region, alg, AKI, intake, key, depth, position bucket).",
	Assumptions: []string{
		"flips in the outer header, outer algorithm parameters and the BIT STRING unused-bits octet do not touch the signed content, the signature bits or the algorithm OID and are not asserted",
		"a correctly re-signed document whose inner algorithm field differs from the outer one is authentic in the sense of the property statement and is not asserted",
	},
}

func TestMain(m *testing.M) {
	code := m.Run()
	world.Cleanup()
	os.Exit(code)
}

func TestProp(t *testing.T)   { ev.Check(t, spec) }
func TestReplay(t *testing.T) { ev.Replay(t, spec) }
