package gen

import (
	"crypto/rand"
	"crypto/sha1"
	"crypto/x509"
	"crypto/x509/pkix"
	"encoding/asn1"
	"encoding/hex"
	"encoding/pem"
	"fmt"
	"math/big"
	"time"
)

// ATV is one attribute of a relative distinguished name.
// T is a short name (CN,O,OU,C,L,ST,SN,DC,EMAIL) or a dotted OID.
// Kind selects the string type: "" (auto: Printable if possible else UTF8),
// "utf8", "printable", "ia5", "t61" (TeletexString, one byte per Latin-1 character).
type ATV struct {
	T    string `json:"t"`
	V    string `json:"v"`
	Kind string `json:"k,omitempty"`
}

// NameSpec is a sequence of RDN sets, in encoding order.
type NameSpec [][]ATV

var attrOIDs = map[string]string{
	"CN": "2.5.4.3", "O": "2.5.4.10", "OU": "2.5.4.11", "C": "2.5.4.6", "L": "2.5.4.7",
	"ST": "2.5.4.8", "SN": "2.5.4.5", "DC": "0.9.2342.19200300.100.1.25", "EMAIL": "1.2.840.113549.1.9.1",
	"STREET": "2.5.4.9", "POSTAL": "2.5.4.17",
}

func isPrintable(s string) bool {
	for _, r := range s {
		switch {
		case r >= 'a' && r <= 'z', r >= 'A' && r <= 'Z', r >= '0' && r <= '9':
		case r == ' ' || r == '\'' || r == '(' || r == ')' || r == '+' || r == ',' || r == '-' || r == '.' || r == '/' || r == ':' || r == '=' || r == '?':
		default:
			return false
		}
	}
	return true
}

// DER encodes the name.
func (n NameSpec) DER() []byte {
	var rdns [][]byte
	for _, set := range n {
		var atvs [][]byte
		for _, a := range set {
			oid := a.T
			if o, ok := attrOIDs[a.T]; ok {
				oid = o
			}
			tag := byte(0x0c)
			switch a.Kind {
			case "printable":
				tag = 0x13
			case "ia5":
				tag = 0x16
			case "utf8":
				tag = 0x0c
			case "t61":
				// TeletexString as old PKIs wrote it: one byte per Latin-1 character (NOT valid UTF-8 above 0x7f)
				tag = 0x14
				b := make([]byte, 0, len(a.V))
				for _, r := range a.V {
					b = append(b, byte(r))
				}
				atvs = append(atvs, TLV(0x30, DEROID(oid), TLV(tag, b)))
				continue
			default:
				if isPrintable(a.V) {
					tag = 0x13
				}
			}
			atvs = append(atvs, TLV(0x30, DEROID(oid), TLV(tag, []byte(a.V))))
		}
		// DER SET OF ordering: sort encodings ascending
		for i := 1; i < len(atvs); i++ {
			for j := i; j > 0 && string(atvs[j]) < string(atvs[j-1]); j-- {
				atvs[j], atvs[j-1] = atvs[j-1], atvs[j]
			}
		}
		rdns = append(rdns, TLV(0x31, atvs...))
	}
	return TLV(0x30, rdns...)
}

// RDN decodes the name with encoding/asn1 (reference view).
func (n NameSpec) RDN() pkix.RDNSequence {
	var r pkix.RDNSequence
	rest, err := asn1.Unmarshal(n.DER(), &r)
	if err != nil || len(rest) != 0 {
		panic(fmt.Sprintf("gen: name does not decode: %v", err))
	}
	return r
}

// CN is a convenience one-RDN name.
func CN(s string) NameSpec { return NameSpec{{{T: "CN", V: s}}} }

// CertSpec describes one certificate to issue.
type CertSpec struct {
	Key       string   `json:"key"`
	Subject   NameSpec `json:"subject"`
	SerialHex string   `json:"serial"` // positive magnitude, hex
	IsCA      bool     `json:"ca,omitempty"`
	// KeyUsage: "" (CA: certSign|cRLSign, leaf: digitalSignature), "absent",
	// "certonly" (certSign without cRLSign), "crlonly", "ds"
	KeyUsage string `json:"ku,omitempty"`
	// AKI form for this certificate: "" (Go default: keyId of parent when it has an SKI),
	// "absent", "keyid", "issuerserial", "both"
	AKI        string   `json:"aki,omitempty"`
	CDP        []string `json:"cdp,omitempty"`
	OCSP       []string `json:"ocsp,omitempty"`
	OCSPSigner bool     `json:"ocspsigner,omitempty"` // EKU OCSPSigning
	ForceSKI   bool     `json:"ski,omitempty"`        // subjectKeyIdentifier also on a non-CA certificate
	Expired    bool     `json:"expired,omitempty"`    // notAfter lies in the past (2025-06-01)
	SKIHex     string   `json:"ski_hex,omitempty"`    // explicit subjectKeyIdentifier (overrides the computed one)
	NoEKU      bool     `json:"noeku,omitempty"`
	// AnyEKU: clientAuth + anyExtendedKeyUsage (permits every usage in chain building, but is not id-kp-OCSPSigning)
	AnyEKU bool `json:"anyeku,omitempty"`
}

// Cert is an issued certificate with its key.
type Cert struct {
	Spec CertSpec
	Cert *x509.Certificate
	Key  *Key
}

// FixedNotBefore/After are used for all generated certificates (the plugin never
// looks at validity; the TLS stack has verified the chain before calling it).
var FixedNotBefore = time.Date(2025, 1, 1, 0, 0, 0, 0, time.UTC)
var FixedNotAfter = time.Date(2045, 1, 1, 0, 0, 0, 0, time.UTC)

// SerialFromHex parses a hex magnitude.
func SerialFromHex(h string) *big.Int {
	b, err := hex.DecodeString(h)
	if err != nil {
		panic(fmt.Sprintf("bad serial hex %q", h))
	}
	return new(big.Int).SetBytes(b)
}

// AKIExtension builds an authorityKeyIdentifier extension of the given form for
// a signer certificate.
func AKIExtension(form string, signer *x509.Certificate) (pkix.Extension, bool) {
	var parts [][]byte
	keyid := TLV(0x80, signer.SubjectKeyId)
	// authorityCertIssuer [1] GeneralNames { directoryName [4] Name }, authorityCertSerialNumber [2]
	is := [][]byte{
		TLV(0xa1, TLV(0xa4, signer.RawIssuer)),
		TLV(0x82, DERBigInt(signer.SerialNumber)[2:]),
	}
	serial := TLV(0x82, DERBigInt(signer.SerialNumber)[2:])
	switch form {
	case "uri-serial": // authorityCertIssuer names the issuer by a URI only (legal: GeneralNames, not necessarily a directoryName)
		parts = [][]byte{TLV(0xa1, TLV(0x86, []byte("http://ca.example.org/issuing-ca"))), serial}
	case "dns-serial":
		parts = [][]byte{TLV(0xa1, TLV(0x82, []byte("ca.example.org"))), serial}
	case "emptynames-serial":
		parts = [][]byte{TLV(0xa1), serial}
	case "keyid":
		parts = [][]byte{keyid}
	case "issuerserial":
		parts = is
	case "both":
		parts = append([][]byte{keyid}, is...)
	default:
		return pkix.Extension{}, false
	}
	return pkix.Extension{Id: asn1.ObjectIdentifier{2, 5, 29, 35}, Value: TLV(0x30, parts...)}, true
}

// Issue creates a certificate. parent == nil means self-signed.
func Issue(spec CertSpec, parent *Cert) *Cert {
	key := K(spec.Key)
	subj := spec.Subject.DER()
	tpl := &x509.Certificate{
		SerialNumber:          SerialFromHex(spec.SerialHex),
		RawSubject:            subj,
		NotBefore:             FixedNotBefore,
		NotAfter:              FixedNotAfter,
		BasicConstraintsValid: true,
		IsCA:                  spec.IsCA,
		CRLDistributionPoints: spec.CDP,
		OCSPServer:            spec.OCSP,
	}
	if spec.Expired {
		tpl.NotAfter = time.Date(2025, 6, 1, 0, 0, 0, 0, time.UTC)
	}
	if tpl.SerialNumber.Sign() == 0 {
		tpl.SerialNumber = big.NewInt(1)
	}
	switch spec.KeyUsage {
	case "":
		if spec.IsCA {
			tpl.KeyUsage = x509.KeyUsageCertSign | x509.KeyUsageCRLSign
		} else {
			tpl.KeyUsage = x509.KeyUsageDigitalSignature
		}
	case "absent":
	case "certonly":
		tpl.KeyUsage = x509.KeyUsageCertSign
	case "crlonly":
		tpl.KeyUsage = x509.KeyUsageCRLSign
	case "ds":
		tpl.KeyUsage = x509.KeyUsageDigitalSignature
	default:
		panic("bad key usage " + spec.KeyUsage)
	}
	if spec.ForceSKI {
		pub, err := x509.MarshalPKIXPublicKey(key.Signer.Public())
		if err != nil {
			panic(err)
		}
		h := sha1.Sum(pub)
		tpl.SubjectKeyId = h[:]
	}
	if spec.SKIHex != "" {
		b, err := hex.DecodeString(spec.SKIHex)
		if err != nil {
			panic(err)
		}
		tpl.SubjectKeyId = b
	}
	if spec.OCSPSigner {
		tpl.ExtKeyUsage = []x509.ExtKeyUsage{x509.ExtKeyUsageOCSPSigning}
	} else if !spec.IsCA && !spec.NoEKU {
		tpl.ExtKeyUsage = []x509.ExtKeyUsage{x509.ExtKeyUsageClientAuth}
		if spec.AnyEKU {
			tpl.ExtKeyUsage = append(tpl.ExtKeyUsage, x509.ExtKeyUsageAny)
		}
	}
	signerCert := tpl
	signerKey := key
	if parent != nil {
		signerCert = parent.Cert
		signerKey = parent.Key
	}
	if parent != nil {
		switch spec.AKI {
		case "":
		case "absent":
			// Go adds the parent's SKI as AKI automatically; suppress by overriding
			// with an explicit empty choice is not possible, so use a parent copy without SKI.
			cp := *parent.Cert
			cp.SubjectKeyId = nil
			signerCert = &cp
		default:
			if ext, ok := AKIExtension(spec.AKI, parent.Cert); ok {
				tpl.ExtraExtensions = append(tpl.ExtraExtensions, ext)
			}
		}
	}
	der, err := x509.CreateCertificate(rand.Reader, tpl, signerCert, key.Signer.Public(), signerKey.Signer)
	if err != nil {
		panic(fmt.Sprintf("gen: CreateCertificate: %v (spec %+v)", err, spec))
	}
	c, err := x509.ParseCertificate(der)
	if err != nil {
		panic(fmt.Sprintf("gen: ParseCertificate: %v", err))
	}
	return &Cert{Spec: spec, Cert: c, Key: key}
}

// PEM returns the certificate in PEM form.
func (c *Cert) PEM() []byte {
	return pem.EncodeToMemory(&pem.Block{Type: "CERTIFICATE", Bytes: c.Cert.Raw})
}
