// Package gen holds the generators and reference oracles shared by all
// property packages: a committed key pool, a small PKI builder, a grammar based
// CRL encoder (own DER writer), OCSP response builders and whole-document
// reference decoders.
package gen

import (
	"crypto"
	"crypto/ecdsa"
	"crypto/ed25519"
	"crypto/rsa"
	"crypto/x509"
	"embed"
	"encoding/pem"
	"fmt"
	"sync"
)

//go:embed keys/*.pem
var keyFS embed.FS

// Key is one member of the committed key pool. Keys are not derived from the
// seed because Go's key generation is deliberately non-deterministic; a case
// names keys, it never contains them.
type Key struct {
	Name   string
	Signer crypto.Signer
}

var (
	keyMu    sync.Mutex
	keyCache = map[string]*Key{}
)

// RSAKeys / ECKeys are the names usable for CA and leaf certificates.
var RSAKeys = []string{"rsa2048a", "rsa2048b", "rsa2048c", "rsa2048d", "rsa3072"}
var ECKeys = []string{"p256a", "p256b", "p256c", "p256d", "p256e", "p256f", "p224", "p384", "p521"}
var AllCertKeys = append(append([]string{}, RSAKeys...), ECKeys...)

// K returns the named pool key.
func K(name string) *Key {
	keyMu.Lock()
	defer keyMu.Unlock()
	if k, ok := keyCache[name]; ok {
		return k
	}
	b, err := keyFS.ReadFile("keys/" + name + ".pem")
	if err != nil {
		panic(fmt.Sprintf("gen: unknown key %q", name))
	}
	blk, _ := pem.Decode(b)
	p, err := x509.ParsePKCS8PrivateKey(blk.Bytes)
	if err != nil {
		panic(err)
	}
	k := &Key{Name: name, Signer: p.(crypto.Signer)}
	keyCache[name] = k
	return k
}

// IsRSA reports whether the key is an RSA key.
func (k *Key) IsRSA() bool { _, ok := k.Signer.(*rsa.PrivateKey); return ok }

// IsEC reports whether the key is an ECDSA key.
func (k *Key) IsEC() bool { _, ok := k.Signer.(*ecdsa.PrivateKey); return ok }

// IsEd reports whether the key is an Ed25519 key.
func (k *Key) IsEd() bool { _, ok := k.Signer.(ed25519.PrivateKey); return ok }

// PubAlg returns the x509 public key algorithm of the key.
func (k *Key) PubAlg() x509.PublicKeyAlgorithm {
	switch {
	case k.IsRSA():
		return x509.RSA
	case k.IsEC():
		return x509.ECDSA
	default:
		return x509.Ed25519
	}
}
