package gen

import (
	"encoding/asn1"
	"fmt"
	"math/big"
	"strconv"
	"strings"
	"time"
)

// DERLen encodes a definite length.
func DERLen(n int) []byte {
	if n < 0x80 {
		return []byte{byte(n)}
	}
	var b []byte
	for v := n; v > 0; v >>= 8 {
		b = append([]byte{byte(v)}, b...)
	}
	return append([]byte{0x80 | byte(len(b))}, b...)
}

// TLV builds tag || length || concat(content...).
func TLV(tag byte, content ...[]byte) []byte {
	n := 0
	for _, c := range content {
		n += len(c)
	}
	out := make([]byte, 0, n+6)
	out = append(out, tag)
	out = append(out, DERLen(n)...)
	for _, c := range content {
		out = append(out, c...)
	}
	return out
}

// HeaderLen returns the number of bytes of tag+length for a content of n bytes.
func HeaderLen(n int) int { return 1 + len(DERLen(n)) }

// DERIntFromMagnitude encodes a non-negative INTEGER from a big-endian magnitude.
func DERIntFromMagnitude(mag []byte) []byte {
	i := 0
	for i < len(mag)-1 && mag[i] == 0 {
		i++
	}
	m := mag[i:]
	if len(m) == 0 {
		m = []byte{0}
	}
	if m[0]&0x80 != 0 {
		m = append([]byte{0}, m...)
	}
	return TLV(0x02, m)
}

// DERBigInt encodes a *big.Int (may be negative) as INTEGER.
func DERBigInt(v *big.Int) []byte {
	b, err := asn1.Marshal(v)
	if err != nil {
		panic(err)
	}
	return b
}

// DEROID encodes a dotted OID string.
func DEROID(s string) []byte {
	b, err := asn1.Marshal(ParseOID(s))
	if err != nil {
		panic(err)
	}
	return b
}

// ParseOID parses "1.2.3".
func ParseOID(s string) asn1.ObjectIdentifier {
	var oid asn1.ObjectIdentifier
	for _, p := range strings.Split(s, ".") {
		n, err := strconv.Atoi(p)
		if err != nil {
			panic(fmt.Sprintf("bad oid %q", s))
		}
		oid = append(oid, n)
	}
	return oid
}

// DERTime encodes a time as UTCTime (gen=false) or GeneralizedTime (gen=true).
func DERTime(t time.Time, gen bool) []byte {
	t = t.UTC()
	if gen {
		return TLV(0x18, []byte(t.Format("20060102150405Z")))
	}
	return TLV(0x17, []byte(t.Format("060102150405Z")))
}

// DERBool encodes BOOLEAN TRUE.
func DERBoolTrue() []byte { return []byte{0x01, 0x01, 0xff} }

// DERNull is NULL.
var DERNull = []byte{0x05, 0x00}
