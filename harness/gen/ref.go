package gen

import (
	"bytes"
	"crypto"
	"crypto/ecdsa"
	"crypto/rsa"
	"crypto/x509"
	"crypto/x509/pkix"
	"encoding/asn1"
	"errors"
	"fmt"
	"math/big"
)

// RefCRL is the whole-document reference view of a CRL (encoding/asn1).
type RefCRL struct {
	List    pkix.CertificateList
	TBSRaw  []byte
	Issuer  pkix.RDNSequence
	Entries []pkix.RevokedCertificate
	Exts    []pkix.Extension
	Number  *big.Int // nil when no cRLNumber
	SigOID  string
	SigBits asn1.BitString
}

// RefDecode decodes a DER CRL with the standard library's whole-document decoder.
func RefDecode(der []byte) (*RefCRL, error) {
	var cl pkix.CertificateList
	rest, err := asn1.Unmarshal(der, &cl)
	if err != nil {
		return nil, err
	}
	if len(rest) != 0 {
		return nil, errors.New("trailing data")
	}
	r := &RefCRL{List: cl, TBSRaw: cl.TBSCertList.Raw, Issuer: cl.TBSCertList.Issuer,
		Entries: cl.TBSCertList.RevokedCertificates, Exts: cl.TBSCertList.Extensions,
		SigOID: cl.SignatureAlgorithm.Algorithm.String(), SigBits: cl.SignatureValue}
	for _, e := range r.Exts {
		if e.Id.String() == OIDCRLNumber {
			n := new(big.Int)
			if _, err := asn1.Unmarshal(e.Value, &n); err != nil {
				return nil, fmt.Errorf("crlNumber: %v", err)
			}
			r.Number = n
		}
	}
	return r, nil
}

// RefDigest returns Hash_oid(raw tbsCertList) for the outer algorithm, or nil
// if the algorithm has no separate digest / is unknown.
func (r *RefCRL) RefDigest() []byte {
	a, ok := AlgByOID(r.SigOID)
	if !ok || a.Hash == 0 {
		return nil
	}
	h := a.Hash.New()
	h.Write(r.TBSRaw)
	return h.Sum(nil)
}

// VerifiesUnder reports whether the CRL signature verifies under pub with the
// outer algorithm, restricted to the algorithms the property lists as
// supported (RSA PKCS#1 v1.5 and ECDSA with SHA-1/224/256/384/512). The
// signature BIT STRING must be a whole number of octets.
func (r *RefCRL) VerifiesUnder(pub crypto.PublicKey) bool {
	a, ok := AlgByOID(r.SigOID)
	if !ok || !a.Supported {
		return false
	}
	if r.SigBits.BitLength%8 != 0 {
		return false
	}
	d := r.RefDigest()
	switch a.Kind {
	case "rsa":
		k, ok := pub.(*rsa.PublicKey)
		if !ok {
			return false
		}
		return rsa.VerifyPKCS1v15(k, a.Hash, d, r.SigBits.Bytes) == nil
	case "ecdsa":
		k, ok := pub.(*ecdsa.PublicKey)
		if !ok {
			return false
		}
		return ecdsa.VerifyASN1(k, d, r.SigBits.Bytes)
	}
	return false
}

// CRLAKI returns the key identifier / issuer+serial of the CRL's AKI extension.
type AKIInfo struct {
	Present   bool
	KeyID     []byte
	IssuerDER []byte // directoryName content, if any
	Serial    *big.Int
}

// ParseAKI decodes an AKI extension value with the reference decoder.
func ParseAKI(v []byte) (AKIInfo, error) {
	var raw asn1.RawValue
	if _, err := asn1.Unmarshal(v, &raw); err != nil {
		return AKIInfo{}, err
	}
	info := AKIInfo{Present: true}
	rest := raw.Bytes
	for len(rest) > 0 {
		var el asn1.RawValue
		var err error
		rest, err = asn1.Unmarshal(rest, &el)
		if err != nil {
			return info, err
		}
		switch el.Tag {
		case 0:
			info.KeyID = el.Bytes
		case 1:
			var gn asn1.RawValue
			if _, err := asn1.Unmarshal(el.Bytes, &gn); err == nil && gn.Tag == 4 {
				info.IssuerDER = gn.Bytes
			}
		case 2:
			info.Serial = new(big.Int).SetBytes(el.Bytes)
		}
	}
	return info, nil
}

// Entitled reports whether cert is entitled to have issued the CRL according to
// the property text: it matches the CRL's issuer name or authority key
// identifier, and its key usage (when present) permits CRL signing. Whether the
// certificate is in an admissible position (CA above the end-entity, or
// configured trusted signer) is decided by the caller. The reference is as
// permissive as the property allows (name OR key identifier).
func (r *RefCRL) Entitled(cert *x509.Certificate) bool {
	if cert.KeyUsage != 0 && cert.KeyUsage&x509.KeyUsageCRLSign == 0 {
		return false
	}
	var subj pkix.RDNSequence
	if _, err := asn1.Unmarshal(cert.RawSubject, &subj); err == nil && subj.String() == r.Issuer.String() {
		return true
	}
	for _, e := range r.Exts {
		if e.Id.String() != OIDAKI {
			continue
		}
		aki, err := ParseAKI(e.Value)
		if err != nil {
			return false
		}
		if len(aki.KeyID) > 0 && bytes.Equal(aki.KeyID, cert.SubjectKeyId) {
			return true
		}
		if aki.Serial != nil && aki.IssuerDER != nil && aki.Serial.Cmp(cert.SerialNumber) == 0 && bytes.Equal(aki.IssuerDER, cert.RawIssuer) {
			return true
		}
	}
	return false
}

// Authentic reports whether some certificate of signers is entitled and the
// signature verifies under its key.
func (r *RefCRL) Authentic(signers []*x509.Certificate) bool {
	for _, c := range signers {
		if r.Entitled(c) && r.VerifiesUnder(c.PublicKey) {
			return true
		}
	}
	return false
}
