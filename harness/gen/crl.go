package gen

import (
	"bufio"
	"bytes"
	"crypto"
	"crypto/ecdsa"
	"crypto/ed25519"
	"crypto/rand"
	"crypto/rsa"
	_ "crypto/sha1"
	_ "crypto/sha256"
	_ "crypto/sha512"
	"encoding/base64"
	"encoding/hex"
	"fmt"
	"io"
	"math/big"
	"time"
)

// SigAlg describes a CRL signature algorithm.
type SigAlg struct {
	Name      string
	OID       string
	Hash      crypto.Hash
	Kind      string // "rsa", "ecdsa", "pss", "ed25519"
	Supported bool   // supported by the plugin (RSA PKCS#1 v1.5 / ECDSA with SHA-1..512)
}

// SigAlgs lists all algorithms the generator can emit.
var SigAlgs = map[string]SigAlg{
	"sha1rsa":     {"sha1rsa", "1.2.840.113549.1.1.5", crypto.SHA1, "rsa", true},
	"sha224rsa":   {"sha224rsa", "1.2.840.113549.1.1.14", crypto.SHA224, "rsa", true},
	"sha256rsa":   {"sha256rsa", "1.2.840.113549.1.1.11", crypto.SHA256, "rsa", true},
	"sha384rsa":   {"sha384rsa", "1.2.840.113549.1.1.12", crypto.SHA384, "rsa", true},
	"sha512rsa":   {"sha512rsa", "1.2.840.113549.1.1.13", crypto.SHA512, "rsa", true},
	"sha1ecdsa":   {"sha1ecdsa", "1.2.840.10045.4.1", crypto.SHA1, "ecdsa", true},
	"sha224ecdsa": {"sha224ecdsa", "1.2.840.10045.4.3.1", crypto.SHA224, "ecdsa", true},
	"sha256ecdsa": {"sha256ecdsa", "1.2.840.10045.4.3.2", crypto.SHA256, "ecdsa", true},
	"sha384ecdsa": {"sha384ecdsa", "1.2.840.10045.4.3.3", crypto.SHA384, "ecdsa", true},
	"sha512ecdsa": {"sha512ecdsa", "1.2.840.10045.4.3.4", crypto.SHA512, "ecdsa", true},
	"pss256":      {"pss256", "1.2.840.113549.1.1.10", crypto.SHA256, "pss", false},
	"ed25519":     {"ed25519", "1.3.101.112", 0, "ed25519", false},
}

// RSAAlgNames / ECAlgNames are the supported algorithm names per key kind.
var RSAAlgNames = []string{"sha1rsa", "sha224rsa", "sha256rsa", "sha384rsa", "sha512rsa"}
var ECAlgNames = []string{"sha1ecdsa", "sha224ecdsa", "sha256ecdsa", "sha384ecdsa", "sha512ecdsa"}

// AlgByOID finds an algorithm by OID.
func AlgByOID(oid string) (SigAlg, bool) {
	for _, a := range SigAlgs {
		if a.OID == oid {
			return a, true
		}
	}
	return SigAlg{}, false
}

// AlgIDDER returns the AlgorithmIdentifier DER for the algorithm.
func (a SigAlg) AlgIDDER() []byte {
	switch a.Kind {
	case "rsa":
		return TLV(0x30, DEROID(a.OID), DERNull)
	case "pss":
		// RSASSA-PSS-params with sha256, mgf1sha256, salt 32
		sha256 := TLV(0x30, DEROID("2.16.840.1.101.3.4.2.1"), DERNull)
		mgf := TLV(0x30, DEROID("1.2.840.113549.1.1.8"), sha256)
		params := TLV(0x30, TLV(0xa0, sha256), TLV(0xa1, mgf), TLV(0xa2, []byte{0x02, 0x01, 0x20}))
		return TLV(0x30, DEROID(a.OID), params)
	default:
		return TLV(0x30, DEROID(a.OID))
	}
}

// Ext is an X.509 extension.
type Ext struct {
	OID      string `json:"oid"`
	Critical bool   `json:"crit,omitempty"`
	Value    []byte `json:"val"`
}

// DER encodes the extension.
func (e Ext) DER() []byte {
	if e.Critical {
		return TLV(0x30, DEROID(e.OID), DERBoolTrue(), TLV(0x04, e.Value))
	}
	return TLV(0x30, DEROID(e.OID), TLV(0x04, e.Value))
}

// Well-known extension OIDs.
const (
	OIDReasonCode     = "2.5.29.21"
	OIDInvalidityDate = "2.5.29.24"
	OIDCRLNumber      = "2.5.29.20"
	OIDAKI            = "2.5.29.35"
	OIDDeltaCRL       = "2.5.29.27"
	OIDIDP            = "2.5.29.28"
	OIDFreshest       = "2.5.29.46"
	OIDUnknown        = "1.3.6.1.4.1.55555.1.1"
)

// ReasonExt returns a reasonCode entry extension.
func ReasonExt(code byte) Ext { return Ext{OID: OIDReasonCode, Value: []byte{0x0a, 0x01, code}} }

// InvalidityExt returns an invalidityDate entry extension.
func InvalidityExt(t time.Time) Ext { return Ext{OID: OIDInvalidityDate, Value: DERTime(t, true)} }

// CRLNumberExt returns a cRLNumber extension from a magnitude.
func CRLNumberExt(mag []byte) Ext { return Ext{OID: OIDCRLNumber, Value: DERIntFromMagnitude(mag)} }

// UnknownExt returns an unknown extension with n value bytes.
func UnknownExt(n int, critical bool) Ext {
	return Ext{OID: OIDUnknown, Critical: critical, Value: TLV(0x04, bytes.Repeat([]byte{0x5a}, n))}
}

// Entry is one revokedCertificates element.
type Entry struct {
	SerialHex string `json:"s"`             // big-endian magnitude in hex
	Neg       bool   `json:"neg,omitempty"` // encode the serial as the NEGATIVE number -magnitude (a broken CA; legal for the decoder)
	Date      int64  `json:"d"`             // unix seconds
	GenTime   bool   `json:"g,omitempty"`   // encode as GeneralizedTime
	Exts      []Ext  `json:"x,omitempty"`
}

// DER encodes the entry.
func (e Entry) DER() []byte {
	mag, err := hex.DecodeString(e.SerialHex)
	if err != nil {
		panic("bad serial hex " + e.SerialHex)
	}
	serial := DERIntFromMagnitude(mag)
	if e.Neg {
		serial = DERBigInt(new(big.Int).Neg(new(big.Int).SetBytes(mag)))
	}
	parts := [][]byte{serial, DERTime(time.Unix(e.Date, 0), e.GenTime)}
	if len(e.Exts) > 0 {
		var xs [][]byte
		for _, x := range e.Exts {
			xs = append(xs, x.DER())
		}
		parts = append(parts, TLV(0x30, xs...))
	}
	return TLV(0x30, parts...)
}

// CRLSpec describes a CRL to encode.
type CRLSpec struct {
	Version    int     `json:"version"`  // -1: field absent (v1); otherwise the INTEGER value (1 = v2)
	SigAlg     string  `json:"sigalg"`   // algorithm used to sign and written as outer signatureAlgorithm
	InnerAlg   string  `json:"inneralg"` // "" = same as SigAlg
	IssuerDER  []byte  `json:"issuer"`   // raw Name
	ThisUpdate int64   `json:"this"`     // unix
	NextUpdate int64   `json:"next"`     // 0 = absent
	Entries    []Entry `json:"entries"`  // empty => revokedCertificates absent
	HasExts    bool    `json:"hasexts"`  // crlExtensions present
	Exts       []Ext   `json:"exts,omitempty"`
	// Synthetic entry source for very large lists (not serialised): if N > 0 it is used
	// instead of Entries.
	N       int               `json:"n,omitempty"`
	EntryFn func(i int) Entry `json:"-"`
}

func (s *CRLSpec) count() int {
	if s.N > 0 {
		return s.N
	}
	return len(s.Entries)
}

func (s *CRLSpec) entry(i int) Entry {
	if s.N > 0 {
		return s.EntryFn(i)
	}
	return s.Entries[i]
}

func (s *CRLSpec) innerAlg() SigAlg {
	if s.InnerAlg != "" {
		return SigAlgs[s.InnerAlg]
	}
	return SigAlgs[s.SigAlg]
}

// tbsPrefix is everything inside tbsCertList before revokedCertificates.
func (s *CRLSpec) tbsPrefix() []byte {
	var b []byte
	if s.Version >= 0 {
		b = append(b, 0x02, 0x01, byte(s.Version))
	}
	b = append(b, s.innerAlg().AlgIDDER()...)
	b = append(b, s.IssuerDER...)
	b = append(b, DERTime(time.Unix(s.ThisUpdate, 0), false)...)
	if s.NextUpdate != 0 {
		b = append(b, DERTime(time.Unix(s.NextUpdate, 0), false)...)
	}
	return b
}

func (s *CRLSpec) tbsSuffix() []byte {
	if !s.HasExts {
		return nil
	}
	var xs [][]byte
	for _, x := range s.Exts {
		xs = append(xs, x.DER())
	}
	return TLV(0xa0, TLV(0x30, xs...))
}

// Sign signs the tbs digest/message with the key according to alg.
func Sign(alg SigAlg, key *Key, tbsHash []byte, tbs func() []byte) ([]byte, error) {
	switch alg.Kind {
	case "rsa":
		k, ok := key.Signer.(*rsa.PrivateKey)
		if !ok {
			return nil, fmt.Errorf("key %s is not RSA", key.Name)
		}
		return rsa.SignPKCS1v15(nil, k, alg.Hash, tbsHash)
	case "pss":
		k, ok := key.Signer.(*rsa.PrivateKey)
		if !ok {
			return nil, fmt.Errorf("key %s is not RSA", key.Name)
		}
		return rsa.SignPSS(rand.Reader, k, alg.Hash, tbsHash, &rsa.PSSOptions{SaltLength: 32})
	case "ecdsa":
		k, ok := key.Signer.(*ecdsa.PrivateKey)
		if !ok {
			return nil, fmt.Errorf("key %s is not ECDSA", key.Name)
		}
		return ecdsa.SignASN1(rand.Reader, k, tbsHash)
	case "ed25519":
		k, ok := key.Signer.(ed25519.PrivateKey)
		if !ok {
			return nil, fmt.Errorf("key %s is not Ed25519", key.Name)
		}
		return ed25519.Sign(k, tbs()), nil
	}
	return nil, fmt.Errorf("unknown alg kind %q", alg.Kind)
}

// CompatibleAlgs returns the supported algorithm names usable with the key.
func CompatibleAlgs(key *Key) []string {
	if key.IsRSA() {
		return RSAAlgNames
	}
	if key.IsEC() {
		return ECAlgNames
	}
	return []string{"ed25519"}
}

// Parts are the three top-level components of an encoded CRL.
type Parts struct {
	TBS      []byte // full TLV of tbsCertList
	OuterAlg []byte // full TLV of signatureAlgorithm
	SigBits  []byte // full TLV of signatureValue BIT STRING
}

// Assemble wraps parts in the outer SEQUENCE.
func (p Parts) Assemble() []byte { return TLV(0x30, p.TBS, p.OuterAlg, p.SigBits) }

// BuildParts encodes and signs the CRL in memory.
func (s *CRLSpec) BuildParts(key *Key) (Parts, error) {
	var body bytes.Buffer
	body.Write(s.tbsPrefix())
	if n := s.count(); n > 0 {
		var list bytes.Buffer
		for i := 0; i < n; i++ {
			list.Write(s.entry(i).DER())
		}
		body.Write(TLV(0x30, list.Bytes()))
	}
	body.Write(s.tbsSuffix())
	tbs := TLV(0x30, body.Bytes())
	alg := SigAlgs[s.SigAlg]
	var digest []byte
	if alg.Hash != 0 {
		h := alg.Hash.New()
		h.Write(tbs)
		digest = h.Sum(nil)
	}
	sig, err := Sign(alg, key, digest, func() []byte { return tbs })
	if err != nil {
		return Parts{}, err
	}
	return Parts{TBS: tbs, OuterAlg: alg.AlgIDDER(), SigBits: TLV(0x03, []byte{0}, sig)}, nil
}

// Build encodes and signs the CRL in memory (DER).
func (s *CRLSpec) Build(key *Key) ([]byte, error) {
	p, err := s.BuildParts(key)
	if err != nil {
		return nil, err
	}
	return p.Assemble(), nil
}

// MustBuild is Build that panics.
func (s *CRLSpec) MustBuild(key *Key) []byte {
	b, err := s.Build(key)
	if err != nil {
		panic(err)
	}
	return b
}

// WriteDER streams the signed CRL to w without holding the entry list in memory
// (two passes over the entry source). Only hash-based algorithms.
func (s *CRLSpec) WriteDER(w io.Writer, key *Key) error {
	alg := SigAlgs[s.SigAlg]
	if alg.Hash == 0 {
		return fmt.Errorf("streaming needs a hash based algorithm")
	}
	n := s.count()
	listLen := 0
	for i := 0; i < n; i++ {
		listLen += len(s.entry(i).DER())
	}
	prefix, suffix := s.tbsPrefix(), s.tbsSuffix()
	tbsBody := len(prefix) + len(suffix)
	if n > 0 {
		tbsBody += HeaderLen(listLen) + listLen
	}
	h := alg.Hash.New()
	// signature length must be known before the outer header: sign first (pass 1 hashes).
	writeTBS := func(out io.Writer) error {
		bw := bufio.NewWriterSize(out, 1<<16)
		bw.WriteByte(0x30)
		bw.Write(DERLen(tbsBody))
		bw.Write(prefix)
		if n > 0 {
			bw.WriteByte(0x30)
			bw.Write(DERLen(listLen))
			for i := 0; i < n; i++ {
				bw.Write(s.entry(i).DER())
			}
		}
		bw.Write(suffix)
		return bw.Flush()
	}
	if err := writeTBS(h); err != nil {
		return err
	}
	sig, err := Sign(alg, key, h.Sum(nil), nil)
	if err != nil {
		return err
	}
	sigTLV := TLV(0x03, []byte{0}, sig)
	algTLV := alg.AlgIDDER()
	total := HeaderLen(tbsBody) + tbsBody + len(algTLV) + len(sigTLV)
	if _, err := w.Write(append([]byte{0x30}, DERLen(total)...)); err != nil {
		return err
	}
	if err := writeTBS(w); err != nil {
		return err
	}
	if _, err := w.Write(algTLV); err != nil {
		return err
	}
	_, err = w.Write(sigTLV)
	return err
}

// PEMEncode wraps DER in X509 CRL armour with 64-column lines and the given newline.
func PEMEncode(der []byte, crlf bool) []byte {
	nl := "\n"
	if crlf {
		nl = "\r\n"
	}
	var b bytes.Buffer
	b.WriteString("-----BEGIN X509 CRL-----" + nl)
	enc := base64.StdEncoding.EncodeToString(der)
	for len(enc) > 64 {
		b.WriteString(enc[:64] + nl)
		enc = enc[64:]
	}
	if len(enc) > 0 {
		b.WriteString(enc + nl)
	}
	b.WriteString("-----END X509 CRL-----" + nl)
	return b.Bytes()
}

type lineBreaker struct {
	w   *bufio.Writer
	nl  string
	col int
}

func (l *lineBreaker) Write(p []byte) (int, error) {
	for _, c := range p {
		l.w.WriteByte(c)
		l.col++
		if l.col == 64 {
			l.w.WriteString(l.nl)
			l.col = 0
		}
	}
	return len(p), nil
}

// WritePEM streams the CRL as PEM.
func (s *CRLSpec) WritePEM(w io.Writer, key *Key, crlf bool) error {
	nl := "\n"
	if crlf {
		nl = "\r\n"
	}
	bw := bufio.NewWriterSize(w, 1<<16)
	bw.WriteString("-----BEGIN X509 CRL-----" + nl)
	lb := &lineBreaker{w: bw, nl: nl}
	enc := base64.NewEncoder(base64.StdEncoding, lb)
	if err := s.WriteDER(enc, key); err != nil {
		return err
	}
	enc.Close()
	if lb.col != 0 {
		bw.WriteString(nl)
	}
	bw.WriteString("-----END X509 CRL-----" + nl)
	return bw.Flush()
}
