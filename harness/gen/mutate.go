package gen

// Structure-aware DER mutation: a DER document is parsed into a tree of TLV
// nodes; one node is mutated and the tree is re-serialised so that all
// ancestor lengths stay consistent (the mutation is then actually reached by a
// parser instead of being rejected at the outermost header).

// Node is one TLV.
type Node struct {
	Tag      byte
	Children []*Node // for constructed nodes that parsed cleanly
	Content  []byte  // for primitive nodes (or constructed ones that did not parse)
	// RawHeader, when non-nil, replaces the canonical tag+length header.
	RawHeader []byte
	// Raw, when non-nil, replaces the whole node.
	Raw []byte
}

// ParseTree parses DER into a tree; it never fails: bytes that do not parse as
// TLV stay primitive content.
func ParseTree(b []byte) []*Node {
	nodes, ok := parseNodes(b, 0)
	if !ok {
		return []*Node{{Tag: 0x04, Content: b}}
	}
	return nodes
}

func parseNodes(b []byte, depth int) ([]*Node, bool) {
	var out []*Node
	for len(b) > 0 {
		if len(b) < 2 {
			return nil, false
		}
		tag := b[0]
		if tag&0x1f == 0x1f {
			return nil, false
		}
		hl := 2
		n := int(b[1])
		if b[1]&0x80 != 0 {
			k := int(b[1] & 0x7f)
			if k == 0 || k > 4 || len(b) < 2+k {
				return nil, false
			}
			n = 0
			for _, x := range b[2 : 2+k] {
				n = n<<8 | int(x)
			}
			hl = 2 + k
		}
		if n < 0 || len(b) < hl+n {
			return nil, false
		}
		node := &Node{Tag: tag}
		content := b[hl : hl+n]
		if tag&0x20 != 0 && depth < 12 {
			if ch, ok := parseNodes(content, depth+1); ok {
				node.Children = ch
			} else {
				node.Content = content
			}
		} else {
			node.Content = content
		}
		if node.Children == nil && node.Content == nil {
			node.Content = []byte{}
		}
		out = append(out, node)
		b = b[hl+n:]
	}
	return out, true
}

// Bytes serialises the node.
func (n *Node) Bytes() []byte {
	if n.Raw != nil {
		return n.Raw
	}
	var content []byte
	if n.Children != nil {
		for _, c := range n.Children {
			content = append(content, c.Bytes()...)
		}
	} else {
		content = n.Content
	}
	if n.RawHeader != nil {
		return append(append([]byte{}, n.RawHeader...), content...)
	}
	return TLV(n.Tag, content)
}

// Serialize serialises a node list.
func Serialize(nodes []*Node) []byte {
	var out []byte
	for _, n := range nodes {
		out = append(out, n.Bytes()...)
	}
	return out
}

// Flatten lists all nodes in pre-order together with their parent (nil for roots).
type NodeRef struct {
	Node   *Node
	Parent *Node
	Index  int
	Depth  int
}

func Flatten(nodes []*Node) []NodeRef {
	var out []NodeRef
	var walk func(list []*Node, parent *Node, depth int)
	walk = func(list []*Node, parent *Node, depth int) {
		for i, n := range list {
			out = append(out, NodeRef{n, parent, i, depth})
			if n.Children != nil {
				walk(n.Children, n, depth+1)
			}
		}
	}
	walk(nodes, nil, 0)
	return out
}

// HostileLengths are raw length encodings that a careless parser mishandles.
var HostileLengths = [][]byte{
	{0x80},                                     // indefinite
	{0x81, 0x00},                               // non-minimal zero
	{0x81, 0xff},                               // 255
	{0x82, 0xff, 0xff},                         // 65535
	{0x83, 0x01, 0x40, 0x01},                   // just above 80 KiB
	{0x83, 0xff, 0xff, 0xff},                   // 16 MiB
	{0x84, 0x7f, 0xff, 0xff, 0xff},             // 2^31-1
	{0x84, 0x80, 0x00, 0x00, 0x00},             // 2^31
	{0x84, 0xff, 0xff, 0xff, 0xff},             // 2^32-1
	{0x85, 0x01, 0x00, 0x00, 0x00, 0x00},       // 2^32
	{0x86, 0x01, 0x00, 0x00, 0x00, 0x00, 0x00}, // 2^40
	{0x88, 0x7f, 0xff, 0xff, 0xff, 0xff, 0xff, 0xff, 0xff}, // 2^63-1
	{0x88, 0x80, 0x00, 0x00, 0x00, 0x00, 0x00, 0x00, 0x00}, // 2^63 (negative as int64)
	{0x88, 0xff, 0xff, 0xff, 0xff, 0xff, 0xff, 0xff, 0xff}, // 2^64-1 (-1 as int64)
	{0x88, 0xff, 0xff, 0xff, 0xff, 0xff, 0xff, 0xff, 0xf0}, // -16 as int64
	{0x89, 0x01, 0x00, 0x00, 0x00, 0x00, 0x00, 0x00, 0x00, 0x00},
	{0x8f, 0xff, 0xff, 0xff, 0xff, 0xff, 0xff, 0xff, 0xff, 0xff, 0xff, 0xff, 0xff, 0xff, 0xff, 0xff},
	{0x8f, 0x00, 0x00, 0x00, 0x00, 0x00, 0x00, 0x00, 0x00, 0x00, 0x00, 0x00, 0x00, 0x00, 0x00, 0x10},
	{0x90, 0x00}, // size-of-length nibble 0 with bit 4 set
	{0xff},
}
