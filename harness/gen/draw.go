package gen

import (
	"encoding/hex"
	"fmt"
	"strings"
	"time"

	"pgregory.net/rapid"
)

// DrawSerialHex draws a positive serial magnitude of 1..20 bytes with a bias
// towards interesting shapes (high bit set, values around 2^63/2^64, leading
// 0x00-needing encodings).
func DrawSerialHex(t *rapid.T, label string) string {
	kind := rapid.IntRange(0, 9).Draw(t, label+"_kind")
	switch kind {
	case 0:
		return fmt.Sprintf("%02x", rapid.IntRange(1, 255).Draw(t, label+"_b"))
	case 1: // around 2^63 / 2^64
		return rapid.SampledFrom([]string{
			"7fffffffffffffff", "8000000000000000", "8000000000000001", "ffffffffffffffff",
			"010000000000000000", "010000000000000001", "ffffffff", "0100000000", "80", "ff", "0100",
		}).Draw(t, label+"_edge")
	case 2: // 20 bytes, high bit set
		b := rapid.SliceOfN(rapid.Byte(), 20, 20).Draw(t, label+"_20")
		b[0] |= 0x80
		return hex.EncodeToString(b)
	default:
		n := rapid.IntRange(1, 20).Draw(t, label+"_n")
		b := rapid.SliceOfN(rapid.Byte(), n, n).Draw(t, label+"_bytes")
		if b[0] == 0 {
			b[0] = 1
		}
		return hex.EncodeToString(b)
	}
}

// NormSerialHex strips leading zero bytes (canonical form for comparisons).
func NormSerialHex(h string) string {
	h = strings.ToLower(h)
	for len(h) > 2 && strings.HasPrefix(h, "00") {
		h = h[2:]
	}
	return h
}

var nameWords = []string{"Acme", "Example Org", "Test CA", "Sub CA 1", "Root", "Zürich", "Ünïcode Ltd", "a", "B", "ca_1", "ca", "x,y", "p+q", "dept=9", "#lead", " sp", "tr ", "Ω"}

// DrawName draws a distinguished name of 1..4 RDNs (some multi-valued, some
// non-ASCII, optional long padding attribute).
func DrawName(t *rapid.T, label string, pad int) NameSpec {
	n := rapid.IntRange(1, 4).Draw(t, label+"_rdns")
	types := []string{"CN", "O", "OU", "L", "ST", "DC", "SN"}
	var name NameSpec
	if rapid.IntRange(0, 3).Draw(t, label+"_c") == 0 {
		name = append(name, []ATV{{T: "C", V: rapid.SampledFrom([]string{"DE", "US", "CH"}).Draw(t, label+"_cv")}})
	}
	for i := 0; i < n; i++ {
		set := []ATV{{T: rapid.SampledFrom(types).Draw(t, fmt.Sprintf("%s_t%d", label, i)),
			V: rapid.SampledFrom(nameWords).Draw(t, fmt.Sprintf("%s_v%d", label, i))}}
		if rapid.IntRange(0, 5).Draw(t, fmt.Sprintf("%s_mv%d", label, i)) == 0 {
			set = append(set, ATV{T: "OU", V: rapid.SampledFrom(nameWords).Draw(t, fmt.Sprintf("%s_mvv%d", label, i))})
		}
		if set[0].T == "DC" {
			set[0].Kind = "ia5"
			set[0].V = "example"
		}
		name = append(name, set)
	}
	if pad > 0 {
		name = append(name, []ATV{{T: "OU", V: strings.Repeat("p", pad)}})
	}
	return name
}

// DrawEntryExts draws entry extensions.
func DrawEntryExts(t *rapid.T, label string) []Ext {
	switch rapid.IntRange(0, 5).Draw(t, label+"_xk") {
	case 0, 1:
		return nil
	case 2:
		return []Ext{ReasonExt(byte(rapid.SampledFrom([]int{0, 1, 2, 3, 4, 5, 6, 8, 9, 10}).Draw(t, label+"_rc")))}
	case 3:
		return []Ext{InvalidityExt(time.Unix(int64(rapid.IntRange(946684800, 2000000000).Draw(t, label+"_inv")), 0))}
	case 4:
		return []Ext{UnknownExt(rapid.IntRange(0, 40).Draw(t, label+"_un"), false)}
	default:
		return []Ext{ReasonExt(1), InvalidityExt(time.Unix(1700000000, 0)), UnknownExt(3, false)}
	}
}

// UTC range of UTCTime in the supported profile: 1970..2049.
const (
	MinUTC = 0          // 1970-01-01
	MaxUTC = 2524607999 // 2049-12-31T23:59:59Z
)

// DrawEntry draws a revoked-certificate entry.
func DrawEntry(t *rapid.T, label string, allowExts bool) Entry {
	e := Entry{SerialHex: DrawSerialHex(t, label+"_s")}
	if rapid.IntRange(0, 4).Draw(t, label+"_gen") == 0 {
		e.GenTime = true
		// GeneralizedTime: any year 1970..2200
		e.Date = int64(rapid.IntRange(0, 7258118400).Draw(t, label+"_gd"))
	} else {
		e.Date = int64(rapid.IntRange(MinUTC, MaxUTC).Draw(t, label+"_d"))
	}
	if allowExts {
		e.Exts = DrawEntryExts(t, label)
	}
	return e
}

// DrawSupportedAlg draws a key name and a compatible supported algorithm.
func DrawSupportedAlg(t *rapid.T, label string) (string, string) {
	key := rapid.SampledFrom(AllCertKeys).Draw(t, label+"_key")
	alg := rapid.SampledFrom(CompatibleAlgs(K(key))).Draw(t, label+"_alg")
	return key, alg
}
