package c10

import (
	"crypto/x509"
	"fmt"
	"os"
	"path/filepath"
	"sync/atomic"
	"testing"

	"verifharness/ev"
	"verifharness/world"

	"pgregory.net/rapid"
)

// Unusable is a lenient history in which a distribution-point CRL can be obtained but not USED: the store it has to
// be put into is unusable (its directory vanished under the running process, or the instance is shutting down).
type Unusable struct {
	Disk       bool   `json:"disk"`
	Background bool   `json:"background"`
	Sig        string `json:"sig"`
	// Before: what the location served when it was first named: garbage | down | bad-signature
	Before string `json:"before"`
	// Fault: vanish (everything below work_dir is removed while the process runs, then the location turns good)
	//      | cleanup (the instance is cleaned up while the location still never loaded; handshakes keep arriving)
	Fault string `json:"fault"`
	// Other: a second, healthy location is in force as well
	Other bool `json:"other"`
}

func genUnusable(t *rapid.T) Unusable {
	c := Unusable{
		Disk:       rapid.IntRange(0, 3).Draw(t, "disk") > 0,
		Background: rapid.Bool().Draw(t, "background"),
		Sig:        rapid.SampledFrom([]string{"verify", "verify_log", "none"}).Draw(t, "sig"),
		Fault:      rapid.SampledFrom([]string{"vanish", "vanish", "cleanup"}).Draw(t, "fault"),
		Other:      rapid.IntRange(0, 2).Draw(t, "other") == 0,
	}
	before := []string{"garbage", "down"}
	if c.Sig == "verify" {
		before = append(before, "bad-signature") // the other modes take a wrongly signed list into force
	}
	c.Before = rapid.SampledFrom(before).Draw(t, "before")
	return c
}

var useq atomic.Int64

func runUnusable(c Unusable, x *ev.Ctx) error {
	id := useq.Add(1)
	name := fmt.Sprintf("c10u-%d-%d", os.Getpid(), id)
	o := world.NewOrigin()
	defer o.Close()
	pki := world.NewSimplePKI(name, "p256a", "p256b")
	sib := world.NewSimplePKI(name, "p256c", "p256d")
	wd := world.NewDir("c10u")
	defer os.RemoveAll(wd)
	url, urlOther := o.URL("/a.crl"), o.URL("/other.crl")
	good := pki.CRL(2, "0a")
	switch c.Before {
	case "garbage":
		o.Serve("/a.crl", []byte("<html>maintenance</html>"))
	case "down":
		o.Status("/a.crl", 503, "down")
	case "bad-signature":
		o.Serve("/a.crl", sib.CRL(1, "0a"))
	}
	o.Serve("/other.crl", pki.CRL(1, "0b"))
	listedA := pki.ChainFor(pki.Leaf("0a", []string{url}, nil))
	unlistedA := pki.ChainFor(pki.Leaf("0c", []string{url}, nil))
	noCDP := pki.ChainFor(pki.Leaf("0d", nil, nil))
	listedOther := pki.ChainFor(pki.Leaf("0b", []string{urlOther}, nil))
	unlistedOther := pki.ChainFor(pki.Leaf("0e", []string{urlOther}, nil))
	ch, err := world.NewChecker(world.CRLOpts{WorkDir: wd, Disk: c.Disk, Strict: false, Background: c.Background, Sig: c.Sig})
	if err != nil {
		return fmt.Errorf("setup: %v", err)
	}
	cleaned := false
	defer func() {
		if !cleaned {
			ch.Cleanup()
		}
	}()
	settle := func() { world.Call("refresh", world.DefaultWatchdog*4, func() int { ch.VerifForceUpdate(); return 0 }) }
	if c.Other {
		world.Ask(ch, unlistedOther)
		settle()
		if v := world.Ask(ch, listedOther); v.Kind != "revoked" {
			return fmt.Errorf("setup: certificate listed at the healthy location answers %v", v)
		}
	}
	lenient := func(when string) error {
		for _, p := range []struct {
			what  string
			chain [][]*x509.Certificate
		}{{"unlisted, naming the location", unlistedA}, {"listed, naming the location (its list never came into force)", listedA}, {"without any distribution point", noCDP}} {
			v := world.Ask(ch, p.chain)
			if v.Kind != "ok" {
				return fmt.Errorf("lenient mode, %s: the certificate %s is denied: %v", when, p.what, v)
			}
		}
		return nil
	}
	// the location is named while it cannot deliver a usable list (unless bad signatures are accepted by the mode)
	acceptsBefore := c.Before == "bad-signature" && c.Sig != "verify"
	if !acceptsBefore {
		if err := lenient("location never delivered a usable list"); err != nil {
			return err
		}
		settle()
		if err := lenient("after a refresh while the location still delivers nothing usable"); err != nil {
			return err
		}
	} else {
		x.Class("before-list-accepted-by-mode")
		return nil
	}
	switch c.Fault {
	case "vanish":
		// everything below work_dir disappears under the running process (tmp reaper, operator), then the location
		// delivers a good list: it can be downloaded, parsed and verified but not put into its store
		ents, _ := os.ReadDir(wd)
		for _, e := range ents {
			os.RemoveAll(filepath.Join(wd, e.Name()))
		}
		o.Serve("/a.crl", good)
		x.Classf("vanish/entries-below-work_dir=%d", len(ents))
		for round := 0; round < 2; round++ {
			for _, p := range [][][]*x509.Certificate{unlistedA, noCDP} {
				v := world.Ask(ch, p)
				// with a second list in force, ITS store vanished as well: an error is the fail-closed answer of C09
				if v.Kind != "ok" && !(c.Other && v.Kind == "error") {
					return fmt.Errorf("lenient mode, the list of the location can be downloaded but its store is unusable (round %d): a certificate the list does not revoke is denied: %v", round, v)
				}
			}
			// the listed certificate: revoked if the list made it into force after all, accepted otherwise - never an error
			if v := world.Ask(ch, listedA); v.Kind != "ok" && v.Kind != "revoked" && !(c.Other && v.Kind == "error") {
				return fmt.Errorf("lenient mode, the list of the location can be downloaded but its store is unusable (round %d): the listed certificate answers %v", round, v)
			}
			settle()
		}
	case "cleanup":
		world.Call("Cleanup", world.DefaultWatchdog*4, func() int { ch.Cleanup(); return 0 })
		cleaned = true
		// handshakes still served by the instance that is shutting down: no list of this location was ever in force
		for _, p := range [][][]*x509.Certificate{unlistedA, listedA} {
			v := world.Ask(ch, p)
			if v.Kind != "ok" && !(c.Other && v.Kind == "error") {
				return fmt.Errorf("lenient mode, instance cleaned up, no list of the location was ever in force and no other list is loaded: the certificate is denied: %v", v)
			}
		}
	}
	x.Classf("fault=%s", c.Fault)
	x.Classf("before=%s", c.Before)
	x.NonTrivial(fmt.Sprintf("%+v", c))
	return nil
}

var unusableSpec = ev.Spec[Unusable]{
	ID:   "C10",
	Gen:  genUnusable,
	Run:  runUnusable,
	Rule: "lenient mode, a distribution-point CRL that cannot be USED: the location first delivers garbage / nothing / a wrongly signed list (entry exists, never loaded), then either everything below work_dir vanishes under the running process and the location turns good (download, parse and verification succeed, the swap into the live store fails), or the instance is cleaned up and handshakes keep arriving; disk or memory, both fetch modes, all signature modes, optionally a second healthy location in force. Oracle: certificates the list does not revoke (naming the location or naming no location at all) are never denied; the listed certificate is accepted or revoked, never an error (an error is tolerated only while another, loaded list exists whose vanished or closed store cannot be read: that is the fail-closed answer of C09). Non-trivial: every case that reaches the fault.",
}

func TestUnusable(t *testing.T)       { ev.Check(t, unusableSpec) }
func TestReplayUnusable(t *testing.T) { ev.Replay(t, unusableSpec) }
