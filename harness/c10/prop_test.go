package c10

import (
	"fmt"
	"os"
	"strings"
	"testing"

	"verifharness/ev"
	"verifharness/sim"
	"verifharness/world"

	"pgregory.net/rapid"
)

func genCase(t *rapid.T) sim.Spec {
	var s sim.Spec
	s.Config = sim.Config{
		Disk:       rapid.Bool().Draw(t, "disk"),
		Strict:     rapid.IntRange(0, 2).Draw(t, "strict") != 0,
		Background: rapid.Bool().Draw(t, "background"),
		Sig:        rapid.SampledFrom([]string{"", "verify", "verify", "verify_log", "none"}).Draw(t, "sig"),
	}
	s.Issuers = rapid.IntRange(1, 2).Draw(t, "issuers")
	s.CDPs = sim.DrawCDPs(t, s.Issuers, 3, sim.AllKinds)
	for i := range s.CDPs {
		s.Initial = append(s.Initial, sim.DrawContent(t, fmt.Sprintf("init%d", i), 4))
	}
	s.Events = sim.DrawEvents(t, &s, rapid.IntRange(4, 16).Draw(t, "nev"), 6, true)
	return s
}

func runCase(s sim.Spec, x *ev.Ctx) error {
	res, err := sim.Run(s, x, nil)
	if err != nil {
		return err
	}
	x.Classf("strict=%v", s.Config.Strict)
	x.Classf("background=%v", s.Config.Background)
	x.Classf("disk=%v", s.Config.Disk)
	unsupported := false
	for _, e := range s.Events {
		if e.Kind == "handshake" && e.CDP >= 0 && !s.CDPs[e.CDP].Usable() {
			unsupported = true
			x.Classf("handshake-unsupported-%s", s.CDPs[e.CDP].Kind)
		}
	}
	if res.StrictDenials > 0 {
		x.Class("strict-denial-observed")
	}
	if res.RejectedLoads > 0 && res.AcceptedLoads > 0 {
		x.Class("failed-then-loaded")
	}
	if res.Races > 0 {
		x.Class("background-pending-observed")
	}
	if (res.RejectedLoads > 0 && res.AcceptedLoads > 0) || unsupported && res.Handshakes > 1 || res.Restarts > 0 && res.Handshakes > 1 {
		x.NonTrivial(fmt.Sprintf("%+v|%d|%s", s.Config, len(s.CDPs), strings.Join(res.Trace, ",")))
	}
	return nil
}

var spec = ev.Spec[sim.Spec]{
	ID:  "C10",
	Gen: genCase,
	Run: runCase,
	Rule: "histories over a real checker: 1..3 CDP sets of kinds {http, two http URLs, ldap+http, ldap only, unparsable URL, ldap+unparsable} for 1..2 issuers with near-identical names; config drawn over strict x fetch mode x storage x signature mode; events {handshake(probe serial, naming a CDP or none), origin := good(set) | bad signature | unknown signer | garbage | truncated | unsupported critical extension | HTTP error | empty, refresh tick (the checker's own forced update), restart on the same work_dir}. Reference model: a list is in force for a CDP set from its first acceptable load (acceptable per signature mode) and survives restarts on disk only; strict: a handshake naming a CDP is accepted iff that set is loaded and the serial is not listed (denied for unusable sets); lenient: the verdict is exactly 'listed in a list in force', never an error. In background mode the verdict of the handshake that triggers the fetch may be either the pending or the loaded one. Every verdict is compared with the model. Non-trivial: failed load followed by a successful one, or an unsupported-scheme set handshake, or a restart; distinct by (config, trace).",
	Assumptions: []string{
		"after a restart on disk a persisted list that no handshake has named yet may or may not be consulted (both accepted)",
		"certificates name distribution points of their own issuer",
	},
}

func TestMain(m *testing.M) {
	code := m.Run()
	world.Cleanup()
	os.Exit(code)
}

func TestProp(t *testing.T)   { ev.Check(t, spec) }
func TestReplay(t *testing.T) { ev.Replay(t, spec) }
