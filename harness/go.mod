module verifharness

go 1.23

toolchain go1.23.5

require (
	github.com/caddyserver/caddy/v2 v2.8.4
	github.com/gr33nbl00d/caddy-revocation-validator v0.0.0
	github.com/muesli/cache2go v0.0.0-20221011235721-518229cd8021
	github.com/syndtr/goleveldb v1.0.0
	go.uber.org/zap v1.27.0
	golang.org/x/crypto v0.23.0
	pgregory.net/rapid v1.3.0
)

require (
	filippo.io/edwards25519 v1.1.0 // indirect
	github.com/AndreasBriese/bbloom v0.0.0-20190825152654-46b345b51c96 // indirect
	github.com/Masterminds/goutils v1.1.1 // indirect
	github.com/Masterminds/semver/v3 v3.2.1 // indirect
	github.com/Masterminds/sprig/v3 v3.2.3 // indirect
	github.com/aryann/difflib v0.0.0-20210328193216-ff5ff6dc229b // indirect
	github.com/beorn7/perks v1.0.1 // indirect
	github.com/caddyserver/certmagic v0.21.3 // indirect
	github.com/caddyserver/zerossl v0.1.3 // indirect
	github.com/cespare/xxhash v1.1.0 // indirect
	github.com/cespare/xxhash/v2 v2.2.0 // indirect
	github.com/chzyer/readline v1.5.1 // indirect
	github.com/cpuguy83/go-md2man/v2 v2.0.3 // indirect
	github.com/dgraph-io/badger v1.6.2 // indirect
	github.com/dgraph-io/badger/v2 v2.2007.4 // indirect
	github.com/dgraph-io/ristretto v0.1.1 // indirect
	github.com/dgryski/go-farm v0.0.0-20200201041132-a6ae2369ad13 // indirect
	github.com/dustin/go-humanize v1.0.1 // indirect
	github.com/go-jose/go-jose/v3 v3.0.3 // indirect
	github.com/go-kit/kit v0.13.0 // indirect
	github.com/go-kit/log v0.2.1 // indirect
	github.com/go-logfmt/logfmt v0.6.0 // indirect
	github.com/go-sql-driver/mysql v1.7.1 // indirect
	github.com/golang/glog v1.2.4 // indirect
	github.com/golang/protobuf v1.5.4 // indirect
	github.com/golang/snappy v0.0.4 // indirect
	github.com/google/uuid v1.6.0 // indirect
	github.com/huandu/xstrings v1.4.0 // indirect
	github.com/imdario/mergo v0.3.15 // indirect
	github.com/jackc/chunkreader/v2 v2.0.1 // indirect
	github.com/jackc/pgconn v1.14.3 // indirect
	github.com/jackc/pgio v1.0.0 // indirect
	github.com/jackc/pgpassfile v1.0.0 // indirect
	github.com/jackc/pgproto3/v2 v2.3.3 // indirect
	github.com/jackc/pgservicefile v0.0.0-20221227161230-091c0ba34f0a // indirect
	github.com/jackc/pgtype v1.14.0 // indirect
	github.com/jackc/pgx/v4 v4.18.3 // indirect
	github.com/klauspost/compress v1.17.8 // indirect
	github.com/klauspost/cpuid/v2 v2.2.7 // indirect
	github.com/libdns/libdns v0.2.2 // indirect
	github.com/manifoldco/promptui v0.9.0 // indirect
	github.com/mattn/go-colorable v0.1.13 // indirect
	github.com/mattn/go-isatty v0.0.20 // indirect
	github.com/mgutz/ansi v0.0.0-20200706080929-d51e80ef957d // indirect
	github.com/mholt/acmez/v2 v2.0.1 // indirect
	github.com/miekg/dns v1.1.59 // indirect
	github.com/mitchellh/copystructure v1.2.0 // indirect
	github.com/mitchellh/go-ps v1.0.0 // indirect
	github.com/mitchellh/reflectwalk v1.0.2 // indirect
	github.com/pkg/errors v0.9.1 // indirect
	github.com/prometheus/client_golang v1.19.1 // indirect
	github.com/prometheus/client_model v0.5.0 // indirect
	github.com/prometheus/common v0.48.0 // indirect
	github.com/prometheus/procfs v0.12.0 // indirect
	github.com/quic-go/qpack v0.4.0 // indirect
	github.com/quic-go/quic-go v0.44.0 // indirect
	github.com/rs/xid v1.5.0 // indirect
	github.com/russross/blackfriday/v2 v2.1.0 // indirect
	github.com/shopspring/decimal v1.3.1 // indirect
	github.com/shurcooL/sanitized_anchor_name v1.0.0 // indirect
	github.com/slackhq/nebula v1.6.1 // indirect
	github.com/smallstep/certificates v0.26.1 // indirect
	github.com/smallstep/nosql v0.6.1 // indirect
	github.com/smallstep/pkcs7 v0.0.0-20231024181729-3b98ecc1ca81 // indirect
	github.com/smallstep/scep v0.0.0-20231024192529-aee96d7ad34d // indirect
	github.com/smallstep/truststore v0.13.0 // indirect
	github.com/spf13/cast v1.5.0 // indirect
	github.com/spf13/cobra v1.8.0 // indirect
	github.com/spf13/pflag v1.0.5 // indirect
	github.com/tailscale/tscert v0.0.0-20240517230440-bbccfbf48933 // indirect
	github.com/urfave/cli v1.22.14 // indirect
	github.com/zeebo/blake3 v0.2.3 // indirect
	go.etcd.io/bbolt v1.3.9 // indirect
	go.step.sm/cli-utils v0.9.0 // indirect
	go.step.sm/crypto v0.45.0 // indirect
	go.step.sm/linkedca v0.20.1 // indirect
	go.uber.org/automaxprocs v1.5.3 // indirect
	go.uber.org/multierr v1.11.0 // indirect
	go.uber.org/zap/exp v0.2.0 // indirect
	golang.org/x/crypto/x509roots/fallback v0.0.0-20240507223354-67b13616a595 // indirect
	golang.org/x/exp v0.0.0-20240506185415-9bf2ced13842 // indirect
	golang.org/x/net v0.25.0 // indirect
	golang.org/x/sys v0.20.0 // indirect
	golang.org/x/term v0.20.0 // indirect
	golang.org/x/text v0.15.0 // indirect
	golang.org/x/time v0.5.0 // indirect
	google.golang.org/genproto/googleapis/rpc v0.0.0-20240429193739-8cf5692501f6 // indirect
	google.golang.org/grpc v1.63.2 // indirect
	google.golang.org/protobuf v1.34.1 // indirect
	gopkg.in/yaml.v3 v3.0.1 // indirect
)

replace github.com/gr33nbl00d/caddy-revocation-validator => /repo
