"""Per-property check configuration used by ./check.

Each check has phases; a phase is one test function of one harness package, run
in `shards` parallel processes. kind: rapid (default; -rapid.checks split over
shards), plain (the test enumerates / draws itself from VERIF_SEED, VERIF_SHARD),
fuzz (native go fuzzing, thorough only).
"""

def plain(name, test, quick, thorough, **kw):
    d = {"name": name, "test": test, "kind": "plain", "quick": quick, "thorough": thorough}
    d.update(kw)
    return d

def rapid(name, test, quick, thorough, **kw):
    d = {"name": name, "test": test, "kind": "rapid", "quick": quick, "thorough": thorough}
    d.update(kw)
    return d

CHECKS = {
    "C13": {
        "level": "exploration",
        "phases": [
            rapid("prop", "TestProp",
                  {"checks": 96, "shards": 12, "timeout": 600, "shrinktime": "30s"},
                  {"checks": 3200, "shards": 16, "timeout": 3000, "shrinktime": "60s"}, race=True),
            rapid("ocspexpiry", "TestOCSPExpiry",
                  {"checks": 48, "shards": 12, "timeout": 600, "shrinktime": "20s"},
                  {"checks": 640, "shards": 16, "timeout": 3000, "shrinktime": "60s"}, race=True,
                  replay_test="TestReplayOCSPExpiry", seed_offset=3),
        ],
    },
    "C15": {
        "level": "exploration",
        "phases": [
            rapid("prop", "TestProp",
                  {"checks": 36, "shards": 12, "timeout": 500, "shrinktime": "40s"},
                  {"checks": 480, "shards": 16, "timeout": 3000, "shrinktime": "90s"}),
        ],
    },
    "C17": {
        "level": "exploration",
        "phases": [
            plain("sizes", "TestSizes",
                  {"shards": 12, "timeout": 600},
                  {"shards": 16, "timeout": 3000}),
            rapid("drawn", "TestDrawn",
                  {"checks": 12, "shards": 12, "timeout": 600, "shrinktime": "60s"},
                  {"checks": 96, "shards": 16, "timeout": 3000, "shrinktime": "120s"}),
        ],
    },
    "C19": {
        "level": "exploration",
        "phases": [
            rapid("prop", "TestProp",
                  {"checks": 1500, "shards": 12, "timeout": 400},
                  {"checks": 24000, "shards": 16, "timeout": 2400}),
        ],
    },
    "C01": {
        "level": "exploration",
        "phases": [
            rapid("prop", "TestProp",
                  {"checks": 1200, "shards": 12, "timeout": 400},
                  {"checks": 16000, "shards": 16, "timeout": 2400}),
            plain("giant", "TestGiant",
                  {"shards": 2, "timeout": 400},
                  {"shards": 5, "timeout": 2400}, replay_test="TestReplayGiant"),
        ],
    },
    "C03": {
        "level": "exploration",
        "exhaustive_phases": ["table"],
        "phases": [
            plain("table", "TestTable",
                  {"shards": 12, "timeout": 400},
                  {"shards": 16, "timeout": 2400}),
        ],
    },
    "C14": {
        "level": "exploration",
        "phases": [
            rapid("prop", "TestProp",
                  {"checks": 72, "shards": 12, "timeout": 400, "shrinktime": "30s"},
                  {"checks": 480, "shards": 16, "timeout": 2400, "shrinktime": "60s"}),
        ],
    },
    "C05": {
        "level": "exploration",
        "phases": [
            rapid("prop", "TestProp",
                  {"checks": 2000, "shards": 12, "timeout": 400},
                  {"checks": 40000, "shards": 16, "timeout": 2400}),
        ],
    },
    "C02": {
        "level": "exploration",
        "phases": [
            rapid("prop", "TestProp",
                  {"checks": 2000, "shards": 12, "timeout": 400},
                  {"checks": 40000, "shards": 16, "timeout": 2400}),
        ],
    },
    "C20": {
        "level": "exploration",
        "phases": [
            rapid("hist", "TestProp",
                  {"checks": 400, "shards": 12, "timeout": 400},
                  {"checks": 6000, "shards": 16, "timeout": 2400}),
            rapid("cycle", "TestCycles",
                  {"checks": 48, "shards": 12, "timeout": 400},
                  {"checks": 600, "shards": 16, "timeout": 2400}, replay_test="TestReplayCycle", seed_offset=1),
            rapid("late", "TestLate",
                  {"checks": 120, "shards": 12, "timeout": 400},
                  {"checks": 3200, "shards": 16, "timeout": 2400}, replay_test="TestReplayLate", seed_offset=2),
        ],
    },
    "C12": {
        "level": "fault_enumeration",
        "exhaustive_phases": ["crash"],
        "phases": [
            plain("crash", "TestCrashPoints",
                  {"shards": 12, "timeout": 400},
                  {"shards": 16, "timeout": 2400}),
            plain("timed", "TestTimedKills",
                  {"shards": 6, "timeout": 400},
                  {"shards": 12, "timeout": 1800}),
        ],
    },
    "C04": {
        "level": "exploration",
        "phases": [
            rapid("prop", "TestProp",
                  {"checks": 3000, "shards": 12, "timeout": 400},
                  {"checks": 60000, "shards": 16, "timeout": 2400}),
        ],
    },
    "C11": {
        "level": "exploration",
        "phases": [
            rapid("prop", "TestProp",
                  {"checks": 600, "shards": 12, "timeout": 400},
                  {"checks": 10000, "shards": 16, "timeout": 2400}),
        ],
    },
    "C16": {
        "level": "exploration",
        "exhaustive_phases": ["matrix"],
        "phases": [
            plain("matrix", "TestMatrix",
                  {"shards": 12, "timeout": 400},
                  {"shards": 16, "timeout": 1800}),
        ],
    },
    "C10": {
        "level": "exploration",
        "phases": [
            rapid("prop", "TestProp",
                  {"checks": 600, "shards": 12, "timeout": 400},
                  {"checks": 10000, "shards": 16, "timeout": 2400}),
            rapid("unusable", "TestUnusable",
                  {"checks": 36, "shards": 12, "timeout": 400},
                  {"checks": 640, "shards": 16, "timeout": 2400}, replay_test="TestReplayUnusable", seed_offset=1),
        ],
    },
    "C08": {
        "level": "exploration",
        "phases": [
            rapid("hist", "TestProp",
                  {"checks": 400, "shards": 12, "timeout": 400},
                  {"checks": 8000, "shards": 16, "timeout": 2400}),
            rapid("conc", "TestConc",
                  {"checks": 60, "shards": 6, "timeout": 400},
                  {"checks": 1500, "shards": 12, "timeout": 2400}, replay_test="TestReplayConc", seed_offset=1),
            plain("known", "TestKnown",
                  {"shards": 1, "timeout": 120},
                  {"shards": 1, "timeout": 120}),
            plain("gated", "TestGated",
                  {"shards": 3, "timeout": 200},
                  {"shards": 3, "timeout": 200}, replay_test="TestReplayGate"),
        ],
    },
    "C09": {
        "level": "fault_enumeration",
        "phases": [
            rapid("prop", "TestProp",
                  {"checks": 1500, "shards": 12, "timeout": 400},
                  {"checks": 20000, "shards": 16, "timeout": 2400}),
        ],
    },
    "C18": {
        "level": "exploration",
        "exhaustive_phases": [],
        "phases": [
            rapid("prop", "TestProp",
                  {"checks": 1200, "shards": 12, "timeout": 300},
                  {"checks": 24000, "shards": 16, "timeout": 1800}),
            plain("enum", "TestEnum",
                  {"shards": 12, "timeout": 300},
                  {"shards": 16, "timeout": 1800}),
        ],
    },
    "C07": {
        "level": "exploration",
        "phases": [
            rapid("prop", "TestProp",
                  {"checks": 30000, "shards": 12, "timeout": 400},
                  {"checks": 400000, "shards": 16, "timeout": 2400},
                  ulimit_v=8388608),
            {"name": "fuzz", "test": "FuzzReadCRL", "kind": "fuzz",
             "thorough": {"fuzztime": "300s", "shards": 1, "timeout": 600}},
            {"name": "fuzzaki", "test": "FuzzAKI", "kind": "fuzz",
             "thorough": {"fuzztime": "120s", "shards": 1, "timeout": 400}},
        ],
    },
    "C06": {
        "level": "exploration",
        "phases": [
            rapid("prop", "TestProp",
                  {"checks": 6000, "shards": 12, "timeout": 300},
                  {"checks": 300000, "shards": 16, "timeout": 1800}),
            plain("giant", "TestGiant",
                  {"shards": 2, "timeout": 300},
                  {"shards": 5, "timeout": 900}, replay_test="TestReplayGiant"),
        ],
    },
}
