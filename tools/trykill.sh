#!/bin/bash
# tools/trykill.sh <seed-dir-name> <check> [check...]: which other checks kill a seeded change (scratch worktree, removed afterwards)
export GOFLAGS=-mod=mod GOPROXY=off GOSUMDB=off GOTOOLCHAIN=local
s=$1; shift
base=$(mktemp -d /tmp/verif-trykill-XXXX); wt=$base/wt
git -C /repo worktree add -q --detach $wt HEAD
git -C $wt apply --whitespace=nowarn /verif/seeded/$s/patch.diff || { echo "patch does not apply"; git -C /repo worktree remove --force $wt; exit 2; }
for c in "$@"; do
  out=$(VERIF_REPO=$wt VERIF_ALT_OUT=$base/out-$c ${TRYKILL_ENV:+env $TRYKILL_ENV} /verif/check $c ${TIER:-quick} 2>&1); rc=$?
  echo "$s $c rc=$rc $(echo "$out" | grep -E "^$c (quick|thorough):" )"
  [ $rc -ne 0 ] && echo "$out" | grep -E "failed:|VIOLATION" | head -2 | cut -c1-600
done
git -C /repo worktree remove --force $wt; rm -rf $base
