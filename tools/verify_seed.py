#!/usr/bin/env python3
"""Independent confirmation of a seeded change produced by a sub-agent.

  tools/verify_seed.py <agent_out_dir> <m1|m2> <seed-id> <property> [killer ...]

Steps (all in a scratch worktree outside /repo and /verif, removed afterwards):
  1. patch applies to /repo HEAD, `go build ./...` and `go build -tags verif ./...` succeed
  2. the whole existing suite passes with the change
  3. the demonstration fails with the change and passes without it
On success writes /verif/seeded/<seed-id>/{patch.diff, demo_test.go, notes.md, meta.json}
and registers the seed in mutants/catalogue.json (killers = the checks named).
"""
import json, os, re, shutil, subprocess, sys, tempfile, time
ROOT = os.path.dirname(os.path.dirname(os.path.abspath(__file__)))
out, m, sid, prop = sys.argv[1:5]
killers = sys.argv[5:] or [prop]
ENV = dict(os.environ, GOFLAGS="-mod=mod", GOPROXY="off", GOSUMDB="off", GOTOOLCHAIN="local")
patch = os.path.join(out, m + ".diff")
demo = os.path.join(out, m + "_demo_test.go")
notes = os.path.join(out, m + ".md")
first = open(demo).readline()
mm = re.search(r"((?:crl|core|ocsp|config)(?:/[a-z0-9_]+)*)", first)
pkg = mm.group(1).rstrip("/") if mm else "."
if re.search(r"package revocation\b", open(demo).read()):
    pkg = "."
rm = re.search(r"-run\s+'?([A-Za-z0-9_|^$]+)'?", first)
run = rm.group(1) if rm else "Seed"
base = tempfile.mkdtemp(prefix="verif-seedcheck-")
wt = os.path.join(base, "wt")
def sh(cmd, **kw):
    return subprocess.run(cmd, cwd=wt, env=ENV, capture_output=True, text=True, **kw)
subprocess.run(["git", "-C", "/repo", "worktree", "add", "-q", "--detach", wt, "HEAD"], check=True)
res = {"seed": sid, "property": prop, "package": pkg, "run": run}
try:
    p = sh(["git", "apply", "--whitespace=nowarn", patch])
    res["applies"] = p.returncode == 0
    if not res["applies"]:
        print("patch does not apply:", p.stderr[:500]); sys.exit(1)
    res["builds"] = sh(["go", "build", "./..."]).returncode == 0 and sh(["go", "build", "-tags", "verif", "./..."]).returncode == 0
    t = sh(["go", "test", "-vet=off", "-count=1", "./..."])
    res["suite_passes_with_change"] = t.returncode == 0
    if not res["suite_passes_with_change"]:
        print(t.stdout[-2000:])
    dst = os.path.join(wt, pkg, "zz_seed_demo_test.go")
    shutil.copy(demo, dst)
    d1 = sh(["go", "test", "-vet=off", "-count=1", "-run", run, "./" + pkg + "/"], timeout=600)
    res["demo_fails_with_change"] = d1.returncode != 0
    sh(["git", "apply", "-R", "--whitespace=nowarn", patch])
    d2 = sh(["go", "test", "-vet=off", "-count=1", "-run", run, "./" + pkg + "/"], timeout=600)
    res["demo_passes_without_change"] = d2.returncode == 0 and "no tests to run" not in d2.stdout
    if not res["demo_passes_without_change"]:
        print(d2.stdout[-2000:])
    ok = all(res[k] for k in ("applies", "builds", "suite_passes_with_change", "demo_fails_with_change", "demo_passes_without_change"))
    print(json.dumps(res))
    if ok:
        sd = os.path.join(ROOT, "seeded", sid)
        os.makedirs(sd, exist_ok=True)
        shutil.copy(patch, os.path.join(sd, "patch.diff"))
        shutil.copy(demo, os.path.join(sd, "demo_test.go.txt"))
        if os.path.exists(notes):
            shutil.copy(notes, os.path.join(sd, "notes.md"))
        head = subprocess.run(["git", "-C", "/repo", "rev-parse", "--short", "HEAD"], capture_output=True, text=True).stdout.strip()
        meta = {"seed": sid, "breaks_property": prop, "produced_by": "independent sub-agent given only the property text and a scratch worktree",
                "needs_to_manifest": "see notes.md", "demo": {"package_dir": pkg, "run": run, "file": "demo_test.go.txt (copy into the package dir as zz_seed_demo_test.go)"},
                "confirmed": res, "confirmed_against_repo_commit": head,
                "what_i_ran": ["git apply patch.diff", "go build ./... && go build -tags verif ./...", "go test -vet=off -count=1 ./...  (passes)",
                               "go test -run %s ./%s/ with the change (fails)" % (run, pkg), "same without the change (passes)"]}
        json.dump(meta, open(os.path.join(sd, "meta.json"), "w"), indent=1)
        catp = os.path.join(ROOT, "mutants", "catalogue.json")
        cat = json.load(open(catp))
        cat["seed-" + sid] = {"patch": "seeded/%s/patch.diff" % sid, "killers": killers, "what": "seeded by sub-agent for " + prop}
        json.dump(cat, open(catp, "w"), indent=1)
    sys.exit(0 if ok else 1)
finally:
    subprocess.run(["git", "-C", "/repo", "worktree", "remove", "--force", wt])
    shutil.rmtree(base, ignore_errors=True)
