#!/usr/bin/env python3
"""Port a stored seeded change whose patch no longer applies to /repo HEAD (a later fix commit touched
neighbouring lines) and re-confirm it.

  tools/port_seed.py <seed-id> [--sub 'old=>new' ...] [--manual <script.py>]

The stored patch is rewritten textually (--sub on the patch text, e.g. a context line the fix changed), applied
with GNU patch and fuzz 3 in a scratch worktree, optionally post-edited by a script (run with cwd = worktree),
the result is turned into a fresh diff, and the demonstration is re-run: it must fail with the change, pass
without it, the whole suite must pass with the change. On success patch.diff is replaced (the original is kept as
patch.orig.diff) and meta.json gets a 'rebased' note. Nothing in /repo is touched.
"""
import json, os, shutil, subprocess, sys, tempfile
ROOT = os.path.dirname(os.path.dirname(os.path.abspath(__file__)))
args = sys.argv[1:]
sid = args[0]
subs, manual, note = [], None, ""
i = 1
while i < len(args):
    if args[i] == "--sub":
        a, b = args[i + 1].split("=>", 1); subs.append((a, b)); i += 2
    elif args[i] == "--manual":
        manual = args[i + 1]; i += 2
    elif args[i] == "--from-current":
        i += 1
    elif args[i] == "--note":
        note = args[i + 1]; i += 2
    else:
        raise SystemExit("bad arg " + args[i])
sd = os.path.join(ROOT, "seeded", sid)
meta = json.load(open(os.path.join(sd, "meta.json")))
pkg, run = meta["demo"]["package_dir"], meta["demo"]["run"]
ENV = dict(os.environ, GOFLAGS="-mod=mod", GOPROXY="off", GOSUMDB="off", GOTOOLCHAIN="local")
base = tempfile.mkdtemp(prefix="verif-port-")
wt = os.path.join(base, "wt")
def sh(cmd, **kw):
    return subprocess.run(cmd, cwd=wt, env=ENV, capture_output=True, text=True, **kw)
subprocess.run(["git", "-C", "/repo", "worktree", "add", "-q", "--detach", wt, "HEAD"], check=True)
try:
    src = os.path.join(sd, "patch.orig.diff") if os.path.exists(os.path.join(sd, "patch.orig.diff")) and "--from-current" not in args else os.path.join(sd, "patch.diff")
    text = open(src).read()
    for a, b in subs:
        text = text.replace(a, b)
    tmp = os.path.join(base, "in.diff")
    open(tmp, "w").write(text)
    p = sh(["patch", "-p1", "-F3", "--no-backup-if-mismatch", "-i", tmp])
    if p.returncode != 0:
        print("patch failed:\n" + p.stdout[-1500:] + p.stderr[-500:])
        if not manual:
            sys.exit(1)
    for r in subprocess.run(["find", wt, "-name", "*.rej", "-o", "-name", "*.orig"], capture_output=True, text=True).stdout.split():
        os.remove(r)
    if manual:
        m = subprocess.run([sys.executable, manual], cwd=wt, capture_output=True, text=True)
        if m.returncode != 0:
            print("manual script failed:", m.stdout, m.stderr); sys.exit(1)
    sh(["gofmt", "-w", "."])
    new = sh(["git", "diff"]).stdout
    if not new.strip():
        print("empty diff"); sys.exit(1)
    newp = os.path.join(base, "new.diff")
    open(newp, "w").write(new)
    b1, b2 = sh(["go", "build", "./..."]), sh(["go", "build", "-tags", "verif", "./..."])
    if b1.returncode or b2.returncode:
        print("build fails:\n", b1.stderr[-1500:], b2.stderr[-1500:]); sys.exit(1)
    t = sh(["go", "test", "-vet=off", "-count=1", "./..."])
    res = {"suite_passes_with_change": t.returncode == 0}
    dst = os.path.join(wt, pkg, "zz_seed_demo_test.go")
    shutil.copy(os.path.join(sd, "demo_test.go.txt"), dst)
    d1 = sh(["go", "test", "-vet=off", "-count=1", "-run", run, "./" + pkg + "/"], timeout=900)
    res["demo_fails_with_change"] = d1.returncode != 0 and "build failed" not in d1.stdout
    os.remove(dst)
    sh(["git", "apply", "-R", newp])
    shutil.copy(os.path.join(sd, "demo_test.go.txt"), dst)
    d2 = sh(["go", "test", "-vet=off", "-count=1", "-run", run, "./" + pkg + "/"], timeout=900)
    res["demo_passes_without_change"] = d2.returncode == 0 and "no tests to run" not in d2.stdout
    print(sid, json.dumps(res))
    if not all(res.values()):
        print("--- demo with change:\n", d1.stdout[-1200:], "\n--- demo without change:\n", d2.stdout[-1200:], "\n--- suite:\n", t.stdout[-800:] if t.returncode else "")
        shutil.copy(newp, "/tmp/port-%s.diff" % sid)
        sys.exit(2)
    if not os.path.exists(os.path.join(sd, "patch.orig.diff")):
        shutil.copy(os.path.join(sd, "patch.diff"), os.path.join(sd, "patch.orig.diff"))
    shutil.copy(newp, os.path.join(sd, "patch.diff"))
    head = subprocess.run(["git", "-C", "/repo", "rev-parse", "--short", "HEAD"], capture_output=True, text=True).stdout.strip()
    meta["rebased"] = ("ported onto %s (a later fix commit changed lines the patch touches or uses as context); same idea, original in patch.orig.diff; "
                       "re-confirmed: suite passes with the change, demonstration fails with it and passes without it. %s" % (head, note)).strip()
    json.dump(meta, open(os.path.join(sd, "meta.json"), "w"), indent=1)
finally:
    subprocess.run(["git", "-C", "/repo", "worktree", "remove", "--force", wt])
    shutil.rmtree(base, ignore_errors=True)
