#!/bin/bash
# runs every configured check at the given tier (default quick) and prints one line per check
tier=${1:-quick}
cd "$(dirname "$0")/.."
for c in $(./check --list); do
  t0=$(date +%s)
  out=$(./check $c $tier 2>&1); rc=$?
  echo "$c rc=$rc $(($(date +%s)-t0))s $(echo "$out" | grep -E "^C[0-9]+ $tier:" | sed 's/^C[0-9]* [a-z]*: //') $(echo "$out" | grep -c '^KNOWN-FINDING') known"
  [ $rc -ne 0 ] && echo "$out" | grep -E "VIOLATION|INCONCLUSIVE|failed" | head -3
done
