#!/usr/bin/env python3
"""Regenerates /verif/MANIFEST.json from tools/claims.json (one entry per claimed
property) and properties.jsonl (everything else goes to not_applicable)."""
import json, os, subprocess
ROOT = os.path.dirname(os.path.dirname(os.path.abspath(__file__)))
props = [json.loads(l)['id'] for l in open(os.path.join(ROOT, 'properties.jsonl'))]
claims = json.load(open(os.path.join(ROOT, 'tools', 'claims.json')))
hooks = json.load(open(os.path.join(ROOT, 'tools', 'hooks.json')))
checks = []
for pid in props:
    c = claims.get(pid)
    if not c or c.get('not_applicable'):
        continue
    chk = {"property_id": pid, "quick_cmd": "./check %s quick" % pid, "thorough_cmd": "./check %s thorough" % pid,
           "evidence_file": "/verif/evidence/%s.json" % pid, "replay_cmd_template": "./check %s --replay {path}" % pid,
           "engine": "rapid-harness",
           "level_claimed": {"category": c.get("level", "exploration"), "text": c["text"], "design_ref": c.get("design", "DESIGN.md §4 " + pid)},
           "level_note": c["note"], "technique": c["technique"]}
    checks.append(chk)
na = []
for pid in props:
    c = claims.get(pid)
    if not c:
        na.append({"property_id": pid, "reason": "check not built yet (work in progress; plan in DESIGN.md §4)"})
    elif c.get('not_applicable'):
        na.append({"property_id": pid, "reason": c['not_applicable']})
m = {"version": 1, "setup_cmd": "./check --setup",
     "hooks": {"guard": "verif", "enable": "go test -tags verif inside /verif/harness (its go.mod replaces the repository module with /repo, so every build compiles the current working tree with the hooks on)",
               "baseline_off_cmd": "cd /repo && go build ./... && go test -vet=off -count=1 -timeout 25m ./...",
               "source_commits": hooks.get("source_commits", []), "add_only": True},
     "engines": [{"name": "rapid-harness", "path": "/verif/harness", "serves_properties": [c["property_id"] for c in checks],
                  "kind_free_text": "Go module: pgregory.net/rapid v1.3.0 property tests (stateful histories as generated op lists), exhaustive enumerations of small finite spaces, crash-point/fault enumeration, native go fuzz targets (thorough); driver ./check shards over 16 cores, merges evidence, shrinks and replays"}],
     "checks": checks, "not_applicable": na,
     "notes": "Every check is generated-input search against an explicit oracle (property-based testing / fuzzing). ./selftest applies the mutants under /verif/mutants and /verif/seeded to a scratch copy and shows which check kills which."}
json.dump(m, open(os.path.join(ROOT, 'MANIFEST.json'), 'w'), indent=1)
print("claimed:", [c["property_id"] for c in checks])
